//! Converts the output of `{:?}` (derived `Debug`) into a JSON tree.
//!
//!   Name { a: v, b: w }   -> {"_": "Name", "a": v, "b": w}
//!   Name(v1, v2)          -> {"_": "Name", "0": v1, "1": v2}
//!   (v1, v2)              -> {"_": "", "0": v1, "1": v2}
//!   [a, b]                -> [a, b]
//!   "str"                 -> {"$s": "str"}
//!   'c'                   -> {"$c": "c"}
//!   anything else (unit variants, numbers, dates, bare `Id`s) -> "atom"
//!
//! Being generic over the shape, the projection does not break when ironplc adds a
//! field or a variant; it is the Python side that decides what the fields mean.

use serde_json::{Map, Value};

pub fn debug_to_json(s: &str) -> Result<Value, String> {
    let chars: Vec<char> = s.chars().collect();
    let mut p = P { c: &chars, i: 0 };
    let v = p.value()?;
    p.ws();
    if p.i != p.c.len() {
        return Err(format!("trailing input at {}", p.i));
    }
    Ok(v)
}

struct P<'a> {
    c: &'a [char],
    i: usize,
}

impl<'a> P<'a> {
    fn peek(&self) -> Option<char> {
        self.c.get(self.i).copied()
    }
    fn ws(&mut self) {
        while let Some(ch) = self.peek() {
            if ch == ' ' || ch == '\n' {
                self.i += 1;
            } else {
                break;
            }
        }
    }
    fn expect(&mut self, ch: char) -> Result<(), String> {
        if self.peek() == Some(ch) {
            self.i += 1;
            Ok(())
        } else {
            Err(format!("expected '{}' at {} found {:?}", ch, self.i, self.peek()))
        }
    }

    fn quoted(&mut self, q: char) -> Result<String, String> {
        self.expect(q)?;
        let mut out = String::new();
        loop {
            let ch = self.peek().ok_or("unterminated quote")?;
            self.i += 1;
            if ch == q {
                return Ok(out);
            }
            if ch == '\\' {
                let e = self.peek().ok_or("bad escape")?;
                self.i += 1;
                match e {
                    'n' => out.push('\n'),
                    'r' => out.push('\r'),
                    't' => out.push('\t'),
                    '0' => out.push('\0'),
                    '\\' => out.push('\\'),
                    '\'' => out.push('\''),
                    '"' => out.push('"'),
                    'u' => {
                        self.expect('{')?;
                        let mut hex = String::new();
                        while let Some(h) = self.peek() {
                            self.i += 1;
                            if h == '}' {
                                break;
                            }
                            hex.push(h);
                        }
                        let cp = u32::from_str_radix(&hex, 16).map_err(|e| e.to_string())?;
                        out.push(char::from_u32(cp).unwrap_or('\u{fffd}'));
                    }
                    other => {
                        out.push('\\');
                        out.push(other);
                    }
                }
            } else {
                out.push(ch);
            }
        }
    }

    fn seq(&mut self, close: char) -> Result<Vec<Value>, String> {
        // after the opening bracket
        let mut items = vec![];
        loop {
            self.ws();
            if self.peek() == Some(close) {
                self.i += 1;
                return Ok(items);
            }
            items.push(self.value()?);
            self.ws();
            match self.peek() {
                Some(',') => {
                    self.i += 1;
                }
                Some(ch) if ch == close => {}
                other => return Err(format!("expected ',' or '{}' at {} found {:?}", close, self.i, other)),
            }
        }
    }

    fn fields(&mut self, name: &str) -> Result<Value, String> {
        // after '{'
        let mut m = Map::new();
        m.insert("_".into(), Value::String(name.to_string()));
        loop {
            self.ws();
            if self.peek() == Some('}') {
                self.i += 1;
                return Ok(Value::Object(m));
            }
            let mut key = String::new();
            while let Some(ch) = self.peek() {
                if ch == ':' {
                    break;
                }
                key.push(ch);
                self.i += 1;
            }
            self.expect(':')?;
            self.ws();
            let v = self.value()?;
            m.insert(key.trim().to_string(), v);
            self.ws();
            match self.peek() {
                Some(',') => {
                    self.i += 1;
                }
                Some('}') => {}
                other => return Err(format!("expected ',' or '}}' at {} found {:?}", self.i, other)),
            }
        }
    }

    fn tuple(&mut self, name: &str) -> Result<Value, String> {
        let items = self.seq(')')?;
        let mut m = Map::new();
        m.insert("_".into(), Value::String(name.to_string()));
        for (k, v) in items.into_iter().enumerate() {
            m.insert(k.to_string(), v);
        }
        Ok(Value::Object(m))
    }

    fn value(&mut self) -> Result<Value, String> {
        self.ws();
        match self.peek() {
            Some('"') => {
                let s = self.quoted('"')?;
                let mut m = Map::new();
                m.insert("$s".into(), Value::String(s));
                Ok(Value::Object(m))
            }
            Some('\'') => {
                let s = self.quoted('\'')?;
                let mut m = Map::new();
                m.insert("$c".into(), Value::String(s));
                Ok(Value::Object(m))
            }
            Some('[') => {
                self.i += 1;
                Ok(Value::Array(self.seq(']')?))
            }
            Some('(') => {
                self.i += 1;
                self.tuple("")
            }
            Some('{') => {
                self.i += 1;
                self.fields("")
            }
            _ => {
                // atom, possibly the name of a struct / tuple struct
                let start = self.i;
                while let Some(ch) = self.peek() {
                    if matches!(ch, ',' | ')' | '}' | ']' | '(' | '{' | '[') {
                        break;
                    }
                    self.i += 1;
                }
                let raw: String = self.c[start..self.i].iter().collect();
                let name = raw.trim_end();
                match self.peek() {
                    Some('(') => {
                        self.i += 1;
                        self.tuple(name)
                    }
                    Some('{') => {
                        self.i += 1;
                        self.fields(name)
                    }
                    _ => Ok(Value::String(name.to_string())),
                }
            }
        }
    }
}
