//! vph — in-process conformance harness for ironplc.
//!
//! Reads one JSON object per line on stdin, runs the real ironplc code on it and
//! writes one JSON object per line on stdout (flushed after every case so that the
//! driver can attribute a crash of this process to the case that caused it).
//!
//!   vph lex      {id, text}                      -> tokens + lexical diagnostics
//!   vph parse    {id, text, fid?, render?}       -> Debug tree (as JSON), ids, addresses, echo text, re-parse
//!   vph analyze  {id, files:[{name,text}], project?} -> per-file parse result, analyze() / Project::semantic() diagnostics
//!
//! A panic in the code under test is *data* ("panic": message), never a harness failure.

use std::io::{BufRead, Write};
use std::panic::{catch_unwind, AssertUnwindSafe};
use std::time::Instant;

use ironplc_dsl::common::{AddressAssignment, Library};
use ironplc_dsl::core::{FileId, Id};
use ironplc_dsl::diagnostic::{Diagnostic, Label};
use ironplc_dsl::visitor::Visitor;
use ironplc_parser::options::ParseOptions;
use ironplc_parser::{parse_program, tokenize_program};
use ironplc_plc2plc::write_to_string;
use ironplcc::project::{FileBackedProject, Project};
use serde_json::{json, Map, Value};

mod debugtree;
use debugtree::debug_to_json;

fn label_json(l: &Label) -> Value {
    json!({"start": l.location.start, "end": l.location.end, "file": l.file_id.to_string(), "msg": l.message})
}

fn diag_json(d: &Diagnostic) -> Value {
    json!({
        "code": d.code,
        "primary": label_json(&d.primary),
        "secondary": d.secondary.iter().map(label_json).collect::<Vec<_>>(),
    })
}

fn panic_msg(e: Box<dyn std::any::Any + Send>) -> String {
    if let Some(s) = e.downcast_ref::<&str>() {
        s.to_string()
    } else if let Some(s) = e.downcast_ref::<String>() {
        s.clone()
    } else {
        "<non-string panic>".to_string()
    }
}

struct Collect {
    ids: Vec<Value>,
    addrs: Vec<Value>,
}

impl Visitor<()> for Collect {
    type Value = ();
    fn visit_id(&mut self, node: &Id) -> Result<(), ()> {
        self.ids.push(json!([
            node.original(),
            node.span.start,
            node.span.end,
            node.span.file_id.to_string()
        ]));
        Ok(())
    }
    fn visit_address_assignment(&mut self, node: &AddressAssignment) -> Result<(), ()> {
        self.addrs.push(json!([
            format!("{:?}", node.location),
            format!("{:?}", node.size),
            node.address
        ]));
        Ok(())
    }
}

fn lib_json(lib: &Library, out: &mut Map<String, Value>, prefix: &str) {
    let dbg = format!("{:?}", lib);
    match debug_to_json(&dbg) {
        Ok(v) => {
            out.insert(format!("{prefix}tree"), v);
        }
        Err(e) => {
            out.insert(format!("{prefix}tree_err"), json!(e));
            out.insert(format!("{prefix}debug"), json!(dbg));
        }
    }
    let mut c = Collect {
        ids: vec![],
        addrs: vec![],
    };
    let _ = c.walk(lib);
    out.insert(format!("{prefix}ids"), Value::Array(c.ids));
    out.insert(format!("{prefix}addrs"), Value::Array(c.addrs));
}

fn do_lex(case: &Value) -> Value {
    let text = case["text"].as_str().unwrap_or("");
    let fid = FileId::from_string(case["fid"].as_str().unwrap_or("f.st"));
    let t0 = Instant::now();
    let r = catch_unwind(AssertUnwindSafe(|| {
        tokenize_program(text, &fid, &ParseOptions::default())
    }));
    let ms = t0.elapsed().as_secs_f64() * 1000.0;
    match r {
        Ok((toks, diags)) => {
            let toks: Vec<Value> = toks
                .iter()
                .map(|t| {
                    json!([
                        format!("{:?}", t.token_type),
                        t.span.start,
                        t.span.end,
                        t.line,
                        t.col,
                        t.text,
                        t.span.file_id.to_string()
                    ])
                })
                .collect();
            json!({"id": case["id"], "toks": toks, "diags": diags.iter().map(diag_json).collect::<Vec<_>>(), "ms": ms})
        }
        Err(e) => json!({"id": case["id"], "panic": panic_msg(e), "stage": "lex", "ms": ms}),
    }
}

fn do_parse(case: &Value) -> Value {
    let text = case["text"].as_str().unwrap_or("");
    let fid = FileId::from_string(case["fid"].as_str().unwrap_or("f.st"));
    let render = case["render"].as_bool().unwrap_or(false);
    let analyze = case["analyze"].as_bool().unwrap_or(false);
    let want_tree = case["tree"].as_bool().unwrap_or(true);
    let mut out = Map::new();
    out.insert("id".into(), case["id"].clone());
    let t0 = Instant::now();
    let r = catch_unwind(AssertUnwindSafe(|| {
        parse_program(text, &fid, &ParseOptions::default())
    }));
    out.insert("parse_ms".into(), json!(t0.elapsed().as_secs_f64() * 1000.0));
    let lib = match r {
        Err(e) => {
            out.insert("panic".into(), json!(panic_msg(e)));
            out.insert("stage".into(), json!("parse"));
            return Value::Object(out);
        }
        Ok(Err(d)) => {
            out.insert("ok".into(), json!(false));
            out.insert("diag".into(), diag_json(&d));
            return Value::Object(out);
        }
        Ok(Ok(lib)) => lib,
    };
    out.insert("ok".into(), json!(true));
    if want_tree {
        lib_json(&lib, &mut out, "");
    }
    if analyze {
        let t1 = Instant::now();
        let r = catch_unwind(AssertUnwindSafe(|| ironplc_analyzer::stages::analyze(&[&lib])));
        out.insert("analyze_ms".into(), json!(t1.elapsed().as_secs_f64() * 1000.0));
        match r {
            Err(e) => {
                out.insert("panic".into(), json!(panic_msg(e)));
                out.insert("stage".into(), json!("analyze"));
            }
            Ok(Ok(())) => {
                out.insert("analyze_ok".into(), json!(true));
            }
            Ok(Err(ds)) => {
                out.insert("analyze_ok".into(), json!(false));
                out.insert(
                    "analyze_diags".into(),
                    Value::Array(ds.iter().map(diag_json).collect()),
                );
            }
        }
    }
    if render {
        let t1 = Instant::now();
        let r = catch_unwind(AssertUnwindSafe(|| write_to_string(&lib)));
        out.insert("render_ms".into(), json!(t1.elapsed().as_secs_f64() * 1000.0));
        match r {
            Err(e) => {
                out.insert("panic".into(), json!(panic_msg(e)));
                out.insert("stage".into(), json!("render"));
            }
            Ok(Err(ds)) => {
                out.insert("render_ok".into(), json!(false));
                out.insert(
                    "render_diags".into(),
                    Value::Array(ds.iter().map(diag_json).collect()),
                );
            }
            Ok(Ok(t1text)) => {
                out.insert("render_ok".into(), json!(true));
                // Re-parse the rendered text and render again (C10).
                let r2 = catch_unwind(AssertUnwindSafe(|| {
                    parse_program(&t1text, &fid, &ParseOptions::default())
                }));
                match r2 {
                    Err(e) => {
                        out.insert("panic".into(), json!(panic_msg(e)));
                        out.insert("stage".into(), json!("reparse"));
                    }
                    Ok(Err(d)) => {
                        out.insert("reparse_ok".into(), json!(false));
                        out.insert("reparse_diag".into(), diag_json(&d));
                    }
                    Ok(Ok(lib2)) => {
                        out.insert("reparse_ok".into(), json!(true));
                        out.insert("reparse_eq".into(), json!(lib2 == lib));
                        if want_tree {
                            lib_json(&lib2, &mut out, "re_");
                        }
                        let r3 = catch_unwind(AssertUnwindSafe(|| write_to_string(&lib2)));
                        match r3 {
                            Err(e) => {
                                out.insert("panic".into(), json!(panic_msg(e)));
                                out.insert("stage".into(), json!("rerender"));
                            }
                            Ok(Err(_)) => {
                                out.insert("rerender_ok".into(), json!(false));
                            }
                            Ok(Ok(t2)) => {
                                out.insert("rerender_ok".into(), json!(true));
                                out.insert("rerender_same".into(), json!(t2 == t1text));
                                if t2 != t1text {
                                    out.insert("rerendered".into(), json!(t2));
                                }
                            }
                        }
                    }
                }
                out.insert("rendered".into(), json!(t1text));
            }
        }
    }
    Value::Object(out)
}

fn do_analyze(case: &Value) -> Value {
    let empty = vec![];
    let files = case["files"].as_array().unwrap_or(&empty);
    let use_project = case["project"].as_bool().unwrap_or(false);
    let mut out = Map::new();
    out.insert("id".into(), case["id"].clone());
    let t0 = Instant::now();
    // 1. parse every file on its own
    let mut libs: Vec<Library> = vec![];
    let mut parse: Vec<Value> = vec![];
    for f in files {
        let name = f["name"].as_str().unwrap_or("f.st");
        let text = f["text"].as_str().unwrap_or("");
        let fid = FileId::from_string(name);
        let r = catch_unwind(AssertUnwindSafe(|| {
            parse_program(text, &fid, &ParseOptions::default())
        }));
        match r {
            Err(e) => {
                out.insert("panic".into(), json!(panic_msg(e)));
                out.insert("stage".into(), json!("parse"));
                return Value::Object(out);
            }
            Ok(Err(d)) => parse.push(json!({"name": name, "ok": false, "diag": diag_json(&d)})),
            Ok(Ok(lib)) => {
                parse.push(json!({"name": name, "ok": true}));
                libs.push(lib);
            }
        }
    }
    out.insert("parse".into(), Value::Array(parse));
    // 2. analyze() on the parsed libraries in the given order
    if !libs.is_empty() {
        let refs: Vec<&Library> = libs.iter().collect();
        let _ = ironplc_analyzer::stages::verif_trace::drain();
        let r = catch_unwind(AssertUnwindSafe(|| ironplc_analyzer::stages::analyze(&refs)));
        // what the stages recorded (guarded hook verif_trace in analyzer/src/stages.rs), for PipelineTrace.tla
        let events: Vec<Value> = ironplc_analyzer::stages::verif_trace::drain()
            .iter()
            .map(|e| serde_json::from_str(e).unwrap_or_else(|_| json!({"ev": "unparsable", "text": e})))
            .collect();
        out.insert("stage_events".into(), Value::Array(events));
        match r {
            Err(e) => {
                out.insert("panic".into(), json!(panic_msg(e)));
                out.insert("stage".into(), json!("analyze"));
            }
            Ok(Ok(())) => {
                out.insert("analyze_ok".into(), json!(true));
                out.insert("analyze_diags".into(), json!([]));
            }
            Ok(Err(ds)) => {
                out.insert("analyze_ok".into(), json!(false));
                out.insert(
                    "analyze_diags".into(),
                    Value::Array(ds.iter().map(diag_json).collect()),
                );
            }
        }
    }
    // 3. the project shell: change_text_document in the given order, then semantic()
    if use_project {
        let r = catch_unwind(AssertUnwindSafe(|| {
            let mut p = FileBackedProject::new();
            for f in files {
                let name = f["name"].as_str().unwrap_or("f.st");
                let text = f["text"].as_str().unwrap_or("");
                p.change_text_document(&FileId::from_string(name), text.to_string());
            }
            let r1 = p.semantic();
            // a second call on the same project must agree (memoised parse)
            let r2 = p.semantic();
            (r1, r2)
        }));
        match r {
            Err(e) => {
                out.insert("panic".into(), json!(panic_msg(e)));
                out.insert("stage".into(), json!("project"));
            }
            Ok((r1, r2)) => {
                let enc = |r: &Result<(), Vec<Diagnostic>>| match r {
                    Ok(()) => json!({"ok": true, "diags": []}),
                    Err(ds) => json!({"ok": false, "diags": ds.iter().map(diag_json).collect::<Vec<_>>()}),
                };
                out.insert("project".into(), enc(&r1));
                out.insert("project2".into(), enc(&r2));
            }
        }
    }
    out.insert("ms".into(), json!(t0.elapsed().as_secs_f64() * 1000.0));
    Value::Object(out)
}

fn main() {
    let mode = std::env::args().nth(1).unwrap_or_default();
    // Silence the default panic message: panics are reported as data.
    std::panic::set_hook(Box::new(|_| {}));
    let stdin = std::io::stdin();
    let stdout = std::io::stdout();
    for line in stdin.lock().lines() {
        let line = match line {
            Ok(l) => l,
            Err(_) => break,
        };
        if line.trim().is_empty() {
            continue;
        }
        let case: Value = match serde_json::from_str(&line) {
            Ok(v) => v,
            Err(e) => {
                let mut o = stdout.lock();
                let _ = writeln!(o, "{}", json!({"harness_error": e.to_string()}));
                let _ = o.flush();
                continue;
            }
        };
        let m = mode.clone();
        // Run each case on its own thread with the default main-thread stack size (8 MiB),
        // the stack the real binary has.
        let res = std::thread::Builder::new()
            .stack_size(8 * 1024 * 1024)
            .spawn(move || match m.as_str() {
                "lex" => do_lex(&case),
                "parse" => do_parse(&case),
                "analyze" => do_analyze(&case),
                _ => json!({"harness_error": "unknown mode"}),
            })
            .unwrap()
            .join();
        let v = match res {
            Ok(v) => v,
            Err(_) => json!({"harness_error": "worker thread died"}),
        };
        let mut o = stdout.lock();
        let _ = writeln!(o, "{}", v);
        let _ = o.flush();
    }
}
