------------------------------- MODULE MC_Cli -------------------------------
EXTENDS Cli
(* The disk of the exhaustive configurations:
     dA: v1 (valid), d1 (needs v1)      dB: v2 (valid), s1 (semantic error)
     dC: empty                          dD: v3 (valid) + an unreadable entry
     dE: l1 (lexical error)             dF: y1 (syntax error)
     dG: w1 (semantic error), W1 (valid) - two files whose names differ in letter case only
     dH: k1 (syntax error) - present in the directory as a SYMBOLIC LINK to a regular file elsewhere: a file of the set
         like any other, whether it is named directly or found in the directory                  *)
MCDirOf    == [v1 |-> "dA", d1 |-> "dA", v2 |-> "dB", s1 |-> "dB", v3 |-> "dD", l1 |-> "dE", y1 |-> "dF", w1 |-> "dG", W1 |-> "dG", k1 |-> "dH"]
MCClassOf  == [v1 |-> "V", d1 |-> "D", v2 |-> "V", s1 |-> "S", v3 |-> "V", l1 |-> "L", y1 |-> "Y", w1 |-> "S", W1 |-> "V", k1 |-> "Y"]
MCProvider == [v1 |-> "-", d1 |-> "v1", v2 |-> "-", s1 |-> "-", v3 |-> "-", l1 |-> "-", y1 |-> "-", w1 |-> "-", W1 |-> "-", k1 |-> "-"]
MCDirNames == {"dA", "dB", "dC", "dD", "dE", "dF", "dG", "dH"}
MCBadDirs  == {"dD"}

(* The disk of the encoding configuration (C14): one directory, three files that carry non-ASCII text *)
EncDirOf    == [v1 |-> "dA", s1 |-> "dA", l1 |-> "dA"]
EncClassOf  == [v1 |-> "V", s1 |-> "S", l1 |-> "L"]
EncProvider == [v1 |-> "-", s1 |-> "-", l1 |-> "-"]

\* C14: the observation does not depend on the encoding of any file: checked as an invariant over all
\* encoding assignments (the specification's Expected() has no enc argument)
EncodingTransparent == DependsOnlyOnDenotation
=============================================================================
