-------------------------------- MODULE Cli --------------------------------
(***************************************************************************)
(* The command line (compiler/plc2x/bin/main.rs, cli.rs, source.rs,        *)
(* project.rs): argument list -> enumerated files -> decoded sources ->    *)
(* project -> exit status / OK line / diagnostics.                         *)
(*                                                                         *)
(* The disk is a constant: directories holding files of the classes        *)
(*   V valid   L lexical error   Y syntax error   S semantic error         *)
(*   D valid only together with its provider file (uses a type of it)      *)
(* plus unreadable entries (a sub-directory) and a path that does not      *)
(* exist.  An invocation names files and / or directories in any order,    *)
(* possibly repeatedly.  Each file is stored in one of five encodings;     *)
(* nothing below may depend on that choice (C14).                          *)
(*                                                                         *)
(* C13: ExitOkDiagAgree, DirEqualsFileList, EchoTokenizeExit,              *)
(*      ArgOrderIrrelevant                                                 *)
(* C14: EncodingTransparent                                                *)
(***************************************************************************)
EXTENDS Integers, Sequences, FiniteSets, TLC, Json

CONSTANTS DirOf,        \* [file id -> directory name]
          ClassOf,      \* [file id -> "V" | "L" | "Y" | "S" | "D"]
          Provider,     \* [file id -> file id or "-"]   (for class D)
          DirNames,     \* set of directory names (may hold no file)
          BadDirs,      \* directories that also hold an unreadable entry
          MaxArgs,
          Commands,     \* subset of {"check", "echo", "tokenize"}
          Encodings,    \* set of encoding names
          Verbosities,  \* set of naturals: how often -v is given (logging to a file; nothing below may depend on it)
          Emit

Files == DOMAIN ClassOf
Paths == Files \cup DirNames \cup {"?missing"}
Entries(d) == {f \in Files : DirOf[f] = d} \cup (IF d \in BadDirs THEN {"?sub:" \o d} ELSE {})
IsBadEntry(e) == e \notin Files

VARIABLES cmd, args, enc, verb, \* the invocation; enc: [Files -> Encodings]; verb: number of -v flags
          phase,               \* "Start" | "Enumerated" | "Read" | "Done"
          entries,             \* set of directory entries / files named by the arguments
          sources,             \* set of files read and decoded
          diags,               \* set of <<code, file or path>> emitted on stderr
          okLine,              \* OK printed on stdout
          exit
vars == <<cmd, args, enc, verb, phase, entries, sources, diags, okLine, exit>>

ArgSeqs == UNION {[1..n -> Paths] : n \in 0..MaxArgs}

Init == /\ cmd \in Commands
        /\ args \in ArgSeqs
        /\ enc \in [Files -> Encodings]
        /\ verb \in Verbosities
        /\ phase = "Start" /\ entries = {} /\ sources = {} /\ diags = {} /\ okLine = FALSE /\ exit = -1

Args == {args[i] : i \in 1..Len(args)}

Fail(ds) == /\ diags' = ds /\ exit' = 1 /\ okLine' = FALSE /\ phase' = "Done"

(* create_project, first half: every argument is canonicalised and expanded; any failure ends the run *)
Enumerate ==
  /\ phase = "Start"
  /\ IF "?missing" \in Args
        THEN Fail({<<"P0023", "?missing">>}) /\ UNCHANGED <<entries, sources>>
        ELSE /\ entries' = (Args \cap Files) \cup UNION {Entries(d) : d \in Args \cap DirNames}
             /\ phase' = "Enumerated"
             /\ UNCHANGED <<sources, diags, okLine, exit>>
  /\ UNCHANGED <<cmd, args, enc, verb>>

(* create_project, second half: read + decode (BOM sniffing, UTF-8, then Windows-1252).  The decoded
   text - here: the file's class - does not depend on enc[f]. *)
Decoded(f) == ClassOf[f]
ReadDecode ==
  /\ phase = "Enumerated"
  /\ LET bad == {e \in entries : IsBadEntry(e)}
     IN  IF bad # {}
            THEN Fail({<<"P0026", e>> : e \in bad}) /\ UNCHANGED sources
            ELSE /\ sources' = entries
                 /\ phase' = "Read"
                 /\ UNCHANGED <<diags, okLine, exit>>
  /\ UNCHANGED <<cmd, args, enc, verb, entries>>

Parses(f)    == Decoded(f) \notin {"L", "Y"}
Tokenizes(f) == Decoded(f) # "L"
ParseDiag(f) == IF Decoded(f) = "L" THEN {<<"P0031", f>>} ELSE IF Decoded(f) = "Y" THEN {<<"P0002", f>>} ELSE {}

(* semantic(): parse diagnostics of every file that does not parse + analysis of the ones that do.  The rule that
   finds the undeclared variable of the "S" files stops at its first hit: with several such files exactly one of them
   is named, which one is not specified (it depends on the order in which the declarations are visited). *)
SemFaulty(S) == {g \in S : Parses(g) /\ Decoded(g) = "S"}
SemPicks(S) == IF SemFaulty(S) = {} THEN {"-"} ELSE SemFaulty(S)
CheckDiagsWith(S, pick) ==
  LET parsed == {f \in S : Parses(f)}
  IN  UNION {ParseDiag(f) : f \in S}
      \cup (IF parsed = {} THEN {<<"P0030", "-">>} ELSE {})
      \cup (IF pick = "-" THEN {} ELSE {<<"P0015", pick>>})
      \cup {<<"P0012", f>> : f \in {g \in parsed : Decoded(g) = "D" /\ Provider[g] \notin parsed}}
CheckDiagSets(S) == {CheckDiagsWith(S, pick) : pick \in SemPicks(S)}

Run ==
  /\ phase = "Read"
  /\ CASE cmd = "check" ->
            \E ds \in CheckDiagSets(sources) :
                diags' = ds /\ okLine' = (ds = {}) /\ exit' = (IF ds = {} THEN 0 ELSE 1)
       [] cmd = "echo" ->
            /\ diags' = UNION {ParseDiag(f) : f \in sources}
            /\ okLine' = FALSE
            /\ exit' = (IF \A f \in sources : Parses(f) THEN 0 ELSE 1)
       [] cmd = "tokenize" ->
            \* stops at the first file that does not tokenize; which one is first is not specified
            /\ \E first \in {f \in sources : ~Tokenizes(f)} \cup {"-"} :
                  /\ (first = "-") <=> (\A f \in sources : Tokenizes(f))
                  /\ diags' = (IF first = "-" THEN {} ELSE ParseDiag(first))
            /\ okLine' = (\A f \in sources : Tokenizes(f))
            /\ exit' = (IF \A f \in sources : Tokenizes(f) THEN 0 ELSE 1)
  /\ phase' = "Done"
  /\ UNCHANGED <<cmd, args, enc, verb, entries, sources>>

Next == Enumerate \/ ReadDecode \/ Run
Spec == Init /\ [][Next]_vars

---------------------------------------------------------------------------
Done == phase = "Done"

(* C13 *)
ExitOkDiagAgree == (Done /\ cmd = "check") =>
                      /\ (exit = 0) <=> okLine
                      /\ okLine <=> (diags = {})
                      /\ exit # 0 => (\E d \in diags : TRUE) /\ ~okLine
EchoTokenizeExit == Done =>
                      /\ cmd = "echo" => ((exit = 0) <=> ("?missing" \notin Args /\ \A e \in entries : ~IsBadEntry(e) /\ Parses(e)))
                      /\ cmd = "tokenize" => ((exit = 0) <=> ("?missing" \notin Args /\ \A e \in entries : ~IsBadEntry(e) /\ Tokenizes(e)))

\* the observation of a finished run
Obs == <<exit, okLine, diags>>
\* what the observation may depend on: the command and the SET of entries the arguments denote
\* (=> directory == list of its files, argument order and repetition irrelevant, encoding irrelevant)
Denotation(a) == IF "?missing" \in {a[i] : i \in 1..Len(a)} THEN {"?missing"}
                 ELSE ({a[i] : i \in 1..Len(a)} \cap Files) \cup UNION {Entries(d) : d \in {a[i] : i \in 1..Len(a)} \cap DirNames}
Expected(c, den) ==
  IF den = {"?missing"} THEN <<1, FALSE, {<<"P0023", "?missing">>}>>
  ELSE IF \E e \in den : IsBadEntry(e) THEN <<1, FALSE, {<<"P0026", e>> : e \in {x \in den : IsBadEntry(x)}}>>
  ELSE IF c = "check" THEN (IF diags \in CheckDiagSets(den) THEN <<IF diags = {} THEN 0 ELSE 1, diags = {}, diags>>
                                                                ELSE <<-2, FALSE, {}>>)       \* not an allowed observation
  ELSE IF c = "echo" THEN <<IF \A f \in den : Parses(f) THEN 0 ELSE 1, FALSE, UNION {ParseDiag(f) : f \in den}>>
  ELSE <<IF \A f \in den : Tokenizes(f) THEN 0 ELSE 1, \A f \in den : Tokenizes(f), diags>>
DependsOnlyOnDenotation == Done => Obs = Expected(cmd, Denotation(args))
\* DirEqualsFileList, ArgOrderIrrelevant and EncodingTransparent are instances of DependsOnlyOnDenotation:
\* two invocations with the same command and the same denotation have the same observation.

---------------------------------------------------------------------------
Replay == [R |-> "cli", cmd |-> cmd, args |-> args, enc |-> enc, verb |-> verb, exit |-> exit, ok |-> okLine,
           diags |-> {<<d[1], d[2]>> : d \in diags}, den |-> Denotation(args)]
EmitReplay == (Emit /\ Done) => PrintT(ToJson(Replay))
=============================================================================
