SPECIFICATION Spec
CONSTANTS
  Alphabet = {"D","U","DOT","E","PLUS","MINUS","HASH","L"}
  MaxLen = 6
  Prefix = "none"
  Emit = TRUE
INVARIANTS TypeOK NoTie Tiling LineColDecl Total CodecRoundTrip SemTokOrdered EmitReplay
CHECK_DEADLOCK FALSE
