SPECIFICATION Spec
CONSTANTS
  MaxEdits = 2
  EditKinds = {"grow", "plant"}
  Emit = TRUE
  Shape = "full"
INVARIANTS BaseValid GrowPreservesValid PlantSound SingleFaultIsSingle EmitReplay
CHECK_DEADLOCK FALSE
