------------------------------ MODULE LspTrace ------------------------------
(***************************************************************************)
(* Trace validation of recorded `ironplcc lsp --stdio` traffic against     *)
(* Lsp.tla (implementation -> specification; C11, C12).                    *)
(*                                                                         *)
(* One unit of the trace is one server process: `reset`, the client        *)
(* messages in the order they were written (`c2s`, each fires the          *)
(* corresponding action of Lsp.tla with the logged arguments), the frames  *)
(* the server wrote, in order (`s2c`, each must be the next element of the *)
(* specification's reply queue `out`), and the process exit status.        *)
(* Diag / Tokens are instantiated by the tables in the first record        *)
(* (measured on fresh servers): table entry = small integer naming a       *)
(* diagnostic list / token array.                                          *)
(***************************************************************************)
EXTENDS Lsp, IOUtils, Integers

Rec == ndJsonDeserialize(IOEnv.TRACE)
DiagTab == Rec[1].diag      \* sequence of <<state, u, id>>
TokTab  == Rec[1].tok       \* sequence of <<text, id>>   (id 0 = null result)

VARIABLES l, o, tid, bad
tvars == <<vars, l, o, tid, bad>>

DiagId(st, u) == LET S == {i \in 1..Len(DiagTab) : DiagTab[i][1] = st /\ DiagTab[i][2] = u}
                 IN  IF S = {} THEN -1 ELSE DiagTab[CHOOSE i \in S : TRUE][3]
TokId(t) == IF t = 0 THEN 0
            ELSE LET S == {i \in 1..Len(TokTab) : TokTab[i][1] = t}
                 IN  IF S = {} THEN -1 ELSE TokTab[CHOOSE i \in S : TRUE][2]

StSeq(st) == [u \in 1..NUri |-> st[u]]

TInit == Init /\ l = 2 /\ o = 0 /\ tid = -1 /\ bad = <<>>

IsEv(e) == l <= Len(Rec) /\ Rec[l].ev = e /\ l' = l + 1

TReset == /\ IsEv("reset")
          /\ tid' = Rec[l].tid /\ o' = 0
          /\ docs' = [u \in Uris |-> None] /\ cache' = [u \in Uris |-> None]
          /\ out' = <<>> /\ hist' = <<>> /\ phase' = "Running" /\ pending' = {}
          /\ UNCHANGED bad

TC2S == /\ IsEv("c2s")
        /\ LET r == Rec[l]
           IN  CASE r.k = "open"     -> IF r.u = 0 THEN DidOpenNonFile(r.t) ELSE DidOpen(r.u, r.t)
                 [] r.k = "change"   -> DidChange(r.u, r.ts)
                 [] r.k = "semtok"   -> SemTok(r.u)
                 [] r.k = "unkreq"   -> UnknownReq
                 [] r.k = "unknotif" -> UnknownNotif(r.w)
                 [] r.k = "cresp"    -> ClientResponse
                 [] r.k = "close"    -> DidClose(r.u)
                 [] r.k = "badreq"   -> BadParamsReq(r.w)
                 [] r.k = "badnotif" -> BadParamsNotif(r.m, r.w)
                 [] r.k = "shutdown" -> Shutdown
                 [] r.k = "exit"     -> Exit
                 [] OTHER            -> FALSE
        /\ UNCHANGED <<o, tid, bad>>

Matches(r, e) ==
  CASE e.k = "pub"  -> r.k = "pub" /\ r.u = e.u /\ r.v = e.v /\ r.d = DiagId(StSeq(e.st), e.u)
    [] e.k = "resp" -> /\ r.k = "resp" /\ r.id = e.id
                       /\ r.tk = (IF e.what = "semtok" THEN TokId(e.st) ELSE 0)
    [] e.k = "err"  -> r.k = "err" /\ r.id = e.id /\ r.code = -32601
    [] e.k = "errp" -> r.k = "err" /\ r.id = e.id
    [] OTHER        -> FALSE

TS2C == /\ IsEv("s2c")
        /\ o < Len(out)
        /\ Matches(Rec[l], out[o + 1])
        /\ o' = o + 1
        /\ UNCHANGED <<vars, tid, bad>>

\* the process ended: every expected reply was seen, the exit status is that of the phase
TExit == /\ IsEv("exit")
         /\ o = Len(out)
         /\ phase = "Exited" /\ Rec[l].rc = 0
         /\ UNCHANGED <<vars, o, tid, bad>>

Accept == TReset \/ TC2S \/ TS2C \/ TExit

RECURSIVE NextReset(_)
NextReset(j) == IF j > Len(Rec) THEN j ELSE IF Rec[j].ev = "reset" THEN j ELSE NextReset(j + 1)

Skip == /\ l <= Len(Rec)
        /\ ~ENABLED Accept
        /\ bad' = Append(bad, <<tid, l>>)
        /\ l' = NextReset(l + 1)
        /\ UNCHANGED <<vars, o, tid>>

TNext == Accept \/ Skip
TSpec == TInit /\ [][TNext]_tvars

\* the invariants of the design specification are evaluated on every state of the observed execution
TraceInv == CacheCoherent /\ NoPendingAtRest /\ NeverAnswerNotification /\ Survives

Verdict == l > Len(Rec) => PrintT(<<"TRACE-VERDICT", Len(Rec), bad>>)
=============================================================================
