SPECIFICATION Spec
CONSTANTS
  N = 4
  Name <- ScName
  Deps <- ScDeps
  Fault <- ScFault
  Space <- ScSpace
  SortDeps <- ScSortDeps
  MaxFiles = 3
  Arrange = "all"
  Deviations = {}
  Emit = TRUE
INVARIANTS TypeOK NoMasking OrderIndependent NothingLostBySort EmitReplay
CHECK_DEADLOCK FALSE
