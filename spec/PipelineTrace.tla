--------------------------- MODULE PipelineTrace ---------------------------
(***************************************************************************)
(* Trace validation of recorded analyses against Pipeline.tla              *)
(* (implementation -> specification; C03, C06).                            *)
(*                                                                         *)
(* One unit of the trace is one analysis of one arrangement of a scenario's *)
(* declarations (the scenario constants N, Name, Deps, Fault come from the *)
(* generated module PT_<scenario>): `reset` with the arrangement, `parsed` *)
(* with the per-file outcome of the parser, then the events the guarded    *)
(* hook in analyzer/src/stages.rs records (verif_trace): `concat` with the *)
(* declaration names in library order, one `xform` per transformation      *)
(* (toposort, data_decl, expr_kind, type_initializer) with the names it    *)
(* returned or the problem codes it failed with, one `rule` per semantic   *)
(* rule with its codes, and `end` with the verdict.                        *)
(*                                                                         *)
(* Every event fires the action of Pipeline.tla it corresponds to, with    *)
(* the logged fields bound; what the specification leaves open (which      *)
(* topological order) is taken from the log and checked against what the   *)
(* specification allows (a permutation of the same declarations, providers *)
(* first).  An event for which no action is enabled rejects the unit.      *)
(***************************************************************************)
EXTENDS Pipeline, IOUtils, Integers

Rec == ndJsonDeserialize(IOEnv.TRACE)

CONSTANT NRules          \* semantic(): every rule runs, whatever the others found

VARIABLES l, tid, bad, nrules, rulehit
tvars == <<vars, l, tid, bad, nrules, rulehit>>

NamesOf(s) == [i \in 1..Len(s) |-> Name[s[i]]]
Count(x, s) == Cardinality({i \in 1..Len(s) : s[i] = x})
SameNames(a, b) == Len(a) = Len(b) /\ \A i \in 1..Len(a) : Count(a[i], a) = Count(a[i], b)
\* what the sort guarantees (xform_toposort_declarations.rs): all data types come before all program organization units,
\* and a type alias comes after the type it renames (SortDeps).  Observed and accepted: other references (a structure
\* element's type, a variable's function block type) do not order the declarations - they are looked up by name later.
DataOf(s) == SelectSeq(s, LAMBDA d : Space[d] = "data")
OtherOf(s) == SelectSeq(s, LAMBDA d : Space[d] # "data")
TopoNames(ns, from) ==
  LET nd == Len(DataOf(from))
      pre == SubSeq(ns, 1, nd)
      post == SubSeq(ns, nd + 1, Len(ns))
  IN  /\ SameNames(pre, NamesOf(DataOf(from))) /\ SameNames(post, NamesOf(OtherOf(from)))
      /\ \A i, j \in 1..nd :
            (pre[i] # pre[j] /\ \E d \in Range(from) : Name[d] = pre[i] /\ Space[d] = "data" /\ pre[j] \in SortDeps[d]) => j < i
\* a sequence of declarations with exactly the logged names: the k-th occurrence of a name is the k-th declaration
\* (in the order of `from`) that has this name
Occ(ns, i) == Cardinality({j \in 1..i : ns[j] = ns[i]})
Nth(from, nm, k) == LET idx == {i \in 1..Len(from) : Name[from[i]] = nm}
                        pick == CHOOSE i \in idx : Cardinality({j \in idx : j <= i}) = k
                    IN  from[pick]
Rebuild(ns, from) == [i \in 1..Len(ns) |-> Nth(from, ns[i], Occ(ns, i))]

IsEv(e) == l <= Len(Rec) /\ Rec[l].ev = e /\ l' = l + 1

TInit == Init /\ l = 1 /\ tid = -1 /\ bad = <<>> /\ nrules = 0 /\ rulehit = FALSE

TReset == /\ IsEv("reset")
          /\ tid' = Rec[l].tid
          /\ files' = Rec[l].files
          /\ stage' = "start" /\ lib' = <<>> /\ diags' = {} /\ verdict' = "-"
          /\ nrules' = 0 /\ rulehit' = FALSE
          /\ UNCHANGED bad

\* the parser accepted exactly the files the specification says parse
TParsed == /\ IsEv("parsed")
           /\ Len(Rec[l].ok) = Len(files)
           /\ \A i \in 1..Len(files) : Rec[l].ok[i] = FileParses(files[i])
           /\ ParseAll
           /\ UNCHANGED <<tid, bad, nrules, rulehit>>

\* stages.rs analyze(): called with the libraries of the files that parsed
TAnalyze == /\ IsEv("analyze")
            /\ stage = "parsed"
            /\ Rec[l].sources = Len(ParsedFiles)
            /\ UNCHANGED <<vars, tid, bad, nrules, rulehit>>

TConcat == /\ IsEv("concat")
           /\ Concat
           /\ NamesOf(lib') = Rec[l].decls
           /\ UNCHANGED <<tid, bad, nrules, rulehit>>

\* xform_toposort_declarations: nothing lost, nothing invented, providers first; a cycle is P0010
TToposort ==
  /\ IsEv("xform") /\ Rec[l].stage = "toposort" /\ stage = "concat"
  /\ IF Rec[l].ok
        THEN /\ ~Cyclic(Range(lib))
             /\ SameNames(Rec[l].decls, NamesOf(lib))
             /\ (Undeclared(Range(lib)) = {} => TopoNames(Rec[l].decls, lib))
             /\ lib' = Rebuild(Rec[l].decls, lib)
             /\ stage' = "sorted" /\ UNCHANGED <<diags, verdict>>
        ELSE /\ Cyclic(Range(lib))
             /\ Rec[l].codes = <<"P0010">>
             /\ diags' = diags \cup {<<"P0010", 0>>} /\ stage' = "done" /\ verdict' = "Err" /\ UNCHANGED lib
  /\ UNCHANGED <<files, tid, bad, nrules, rulehit>>

\* the three resolve transformations keep the declarations; a failure needs a duplicate or an unknown name, and
\* with either of them the last transformation cannot succeed
ResolveStages == {"data_decl", "expr_kind", "type_initializer"}
TResolve ==
  /\ IsEv("xform") /\ Rec[l].stage \in ResolveStages /\ stage = "sorted"
  /\ LET S == Range(lib)
         dup == {d \in S : \E e \in S : Clash(d, e)}
         und == Undeclared(S)
     IN  IF Rec[l].ok
            THEN /\ Rec[l].decls = NamesOf(lib)
                 \* an unknown name may also be left to the rules (P0012 ...); a duplicate may not survive the last transformation
                 /\ IF Rec[l].stage = "type_initializer"
                       THEN dup = {} /\ stage' = "resolved"
                       ELSE UNCHANGED stage
                 /\ UNCHANGED <<diags, verdict>>
            ELSE /\ dup # {} \/ und # {}
                 /\ Rec[l].codes # <<>>
                 /\ diags' = diags \cup {<<Rec[l].codes[1], 0>>}
                 /\ stage' = "done" /\ verdict' = "Err"
  /\ UNCHANGED <<files, lib, tid, bad, nrules, rulehit>>

\* semantic(): one event per rule, in order; a rule complains only if some declaration violates a rule
TRule == /\ IsEv("rule") /\ stage = "resolved"
         /\ Rec[l].index = nrules
         /\ nrules' = nrules + 1
         /\ (Rec[l].codes # <<>> => (\E d \in Range(lib) : Fault[d] = "rule") \/ Undeclared(Range(lib)) # {})
         /\ rulehit' = (rulehit \/ Rec[l].codes # <<>>)
         /\ UNCHANGED <<vars, tid, bad>>

TEnd == /\ IsEv("end")
        /\ CASE stage = "resolved" -> /\ nrules = NRules
                                     /\ ((\E d \in Range(lib) : Fault[d] = "rule") => rulehit)
                                     /\ (rulehit => (\E d \in Range(lib) : Fault[d] = "rule") \/ Undeclared(Range(lib)) # {})
                                     /\ Rec[l].ok = (~rulehit /\ diags = {})
             [] stage = "done"     -> Rec[l].ok = FALSE
             [] stage = "parsed"   -> ParsedFiles = <<>> /\ Rec[l].ok = FALSE      \* nothing to analyse
             [] OTHER              -> FALSE
        /\ (Rec[l].ok = (ExpectedVerdict = "Ok"))
        /\ UNCHANGED <<vars, tid, bad, nrules, rulehit>>

Accept == TReset \/ TParsed \/ TAnalyze \/ TConcat \/ TToposort \/ TResolve \/ TRule \/ TEnd

RECURSIVE NextReset(_)
NextReset(j) == IF j > Len(Rec) THEN j ELSE IF Rec[j].ev = "reset" THEN j ELSE NextReset(j + 1)

Skip == /\ l <= Len(Rec)
        /\ ~ENABLED Accept
        /\ bad' = Append(bad, <<tid, l>>)
        /\ l' = NextReset(l + 1)
        /\ UNCHANGED <<vars, tid, nrules, rulehit>>

TNext == Accept \/ Skip
TSpec == TInit /\ [][TNext]_tvars

\* the design invariants are evaluated on every state of the observed execution
TraceInv == NothingLostBySort /\ TypeOK
Verdict == l > Len(Rec) => PrintT(<<"TRACE-VERDICT", Len(Rec), bad>>)
=============================================================================
