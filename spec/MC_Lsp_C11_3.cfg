SPECIFICATION Spec
CONSTANTS
  NUri = 2
  NText = 6
  MaxHist = 3
  Kinds = {"open", "change1", "lowver"}
  Emit = TRUE
  Deviations = {}
INVARIANTS CacheCoherent DocsFollowProtocol PublishesMatchNotifications AnswerExactlyOnce NoPendingAtRest NeverAnswerNotification Survives EmitReplay
PROPERTIES PublishExactlyOnce
CHECK_DEADLOCK FALSE
