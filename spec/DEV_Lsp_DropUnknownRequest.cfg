SPECIFICATION Spec
CONSTANTS
  NUri = 2
  NText = 2
  MaxHist = 2
  Kinds = {"open", "change0", "change1", "change2", "open_nf", "semtok", "unkreq", "unknotif", "cresp", "shutdown"}
  Emit = FALSE
  Deviations = {"DropUnknownRequest"}
INVARIANTS CacheCoherent DocsFollowProtocol PublishesMatchNotifications AnswerExactlyOnce NoPendingAtRest NeverAnswerNotification UnknownGetsError Survives ShutdownThenExit
PROPERTIES PublishExactlyOnce
CHECK_DEADLOCK FALSE
