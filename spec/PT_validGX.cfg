SPECIFICATION TSpec
CONSTANTS
  N = 4
  Name <- ScName
  Deps <- ScDeps
  Fault <- ScFault
  Space <- ScSpace
  SortDeps <- ScSortDeps
  MaxFiles = 1
  Arrange = "identity"
  Deviations = {}
  Emit = FALSE
  NRules = 11
INVARIANTS TraceInv Verdict
CHECK_DEADLOCK FALSE
