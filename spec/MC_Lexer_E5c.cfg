SPECIFICATION Spec
CONSTANTS
  Alphabet = {"LP","ST","RP","LF","L"}
  MaxLen = 5
  Prefix = "comment"
  Emit = TRUE
INVARIANTS TypeOK NoTie Tiling LineColDecl Total CodecRoundTrip SemTokOrdered EmitReplay
CHECK_DEADLOCK FALSE
