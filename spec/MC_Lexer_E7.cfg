SPECIFICATION Spec
CONSTANTS
  Alphabet = {"LP","ST","RP","LF","L"}
  MaxLen = 7
  Prefix = "none"
  Emit = TRUE
INVARIANTS TypeOK NoTie Tiling LineColDecl Total CodecRoundTrip SemTokOrdered EmitReplay
CHECK_DEADLOCK FALSE
