SPECIFICATION Spec
CONSTANTS
  N = 24
  Name <- ScName
  Deps <- ScDeps
  Fault <- ScFault
  Space <- ScSpace
  SortDeps <- ScSortDeps
  MaxFiles = 1
  Arrange = "identity"
  Deviations = {}
  Emit = TRUE
INVARIANTS TypeOK NoMasking OrderIndependent NothingLostBySort EmitReplay
CHECK_DEADLOCK FALSE
