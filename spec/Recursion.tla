----------------------------- MODULE Recursion -----------------------------
(***************************************************************************)
(* C07: a compilation unit is rejected as recursive exactly when its       *)
(* declaration graph has a cycle.                                          *)
(*                                                                         *)
(* Init ranges over ALL edge sets E \subseteq Node \X Node (self loops     *)
(* included).  Cyclic(E) is defined through the transitive closure and     *)
(* cross-checked against the order-theoretic definition (no topological    *)
(* numbering exists).  The same graph is realised by the driver            *)
(*   - as function blocks:  an edge a -> b is an instance of b in a        *)
(*   - as data types:       an edge a -> b is a structure element of type  *)
(*                          b in a; out-degree 1 also as an alias a : b    *)
(***************************************************************************)
EXTENDS Naturals, FiniteSets, Sequences, TLC, Json, Randomization

CONSTANTS NNodes, Emit, RandomGraphs, EdgeCounts, Shapes,      \* Shapes # {}: the named deep / wide families below instead of all edge sets
          SliceK, SliceM      \* only edge sets whose index mod SliceM = SliceK are emitted (SliceM = 1: all)

VARIABLES E
vars == <<E>>

Node == 1..NNodes
Pairs == Node \X Node

\* transitive closure by repeated squaring (NNodes steps suffice)
RECURSIVE Closure(_, _)
Closure(R, n) == IF n = 0 THEN R
                 \* TLCEval: TLC passes operator arguments unevaluated; without it the set would be recomputed at every use
                 ELSE Closure(TLCEval(R \cup {<<a, c>> \in Pairs : \E b \in Node : <<a, b>> \in R /\ <<b, c>> \in R}), n - 1)
\* one squaring doubles the length of the paths covered: ceil(log2(NNodes)) squarings suffice
Squarings == CHOOSE k \in 0..NNodes : 2^k >= NNodes /\ \A j \in 0..(k - 1) : 2^j < NNodes
TC(R) == Closure(R, Squarings)
Cyclic(R) == \E a \in Node : <<a, a>> \in TC(R)

\* order-theoretic definition: acyclic iff the nodes can be numbered so that every edge goes to a smaller number
\* (parameterised so that TLC does not evaluate the set of all numberings eagerly for large NNodes)
Numberings(R) == {f \in [Node -> Node] : \A a, b \in Node : a # b => f[a] # f[b]}
HasTopologicalNumbering(R) == \E f \in Numberings(R) : \A p \in R : f[p[2]] < f[p[1]]
TwoDefinitionsAgree == Cyclic(E) <=> ~HasTopologicalNumbering(E)

\* a deterministic index of an edge set, for slicing the 65 536 four-node graphs
EdgeIndex(p) == (p[1] - 1) * NNodes + p[2]
RECURSIVE SetSum(_)
SetSum(S) == IF S = {} THEN 0 ELSE LET x == CHOOSE y \in S : TRUE IN EdgeIndex(x) * EdgeIndex(x) + SetSum(S \ {x})
InSlice == SliceM = 1 \/ (SetSum(E) + Cardinality(E)) % SliceM = SliceK

\* Deep and wide families ("however deep or wide the graph is"): the number of PATHS of a ladder is 2^(NNodes / 2), so an
\* algorithm that walks paths instead of nodes does not finish on it, and a cycle that closes only after NNodes steps is
\* invisible to a bounded search.
Chain  == {<<i, i + 1>> : i \in 1..(NNodes - 1)}
\* levels of two nodes (2k-1, 2k); every node of a level refers to both nodes of the next level
Ladder == {p \in Pairs : (p[2] + 1) \div 2 = (p[1] + 1) \div 2 + 1}
Fan    == {<<1, i>> : i \in 2..(NNodes - 1)} \cup {<<i, NNodes>> : i \in 2..(NNodes - 1)}
\* every node refers to every later node: the densest acyclic graph
Dense  == {p \in Pairs : p[1] < p[2]}
Shape(s) == CASE s = "chain" -> Chain [] s = "ladder" -> Ladder [] s = "fan" -> Fan [] s = "dense" -> Dense
              [] s = "chain+back" -> Chain \cup {<<NNodes, 1>>}
              [] s = "ladder+back" -> Ladder \cup {<<NNodes, 1>>}
              [] s = "fan+back" -> Fan \cup {<<NNodes, 1>>}
              [] s = "dense+back" -> Dense \cup {<<NNodes, NNodes - 1>>}
              [] s = "chain+selfloop-at-end" -> Chain \cup {<<NNodes, NNodes>>}

\* RandomGraphs > 0: that many random edge sets per edge count instead of all edge sets (large NNodes)
Init == IF Shapes # {} THEN E \in {Shape(s) : s \in Shapes}
        ELSE IF RandomGraphs = 0 THEN E \in SUBSET Pairs
        ELSE E \in {RandomSubset(k, Pairs) : k \in EdgeCounts, i \in 1..RandomGraphs}
Next == UNCHANGED E
Spec == Init /\ [][Next]_vars

ShapeName == IF Shapes = {} THEN "-" ELSE CHOOSE s \in Shapes : Shape(s) = E
ReplayOf(tc) == [R |-> "graph", n |-> NNodes, edges |-> E, cyclic |-> (\E a \in Node : <<a, a>> \in tc), shape |-> ShapeName,
                 on_cycle |-> {a \in Node : <<a, a>> \in tc}]
Replay == ReplayOf(TC(E))
\* every acyclic graph is emitted (they are a small minority), cyclic ones by slice
EmitReplay == Emit => LET tc == TC(E) IN (InSlice \/ ~(\E a \in Node : <<a, a>> \in tc)) => PrintT(ToJson(ReplayOf(tc)))
=============================================================================
