SPECIFICATION Spec
INVARIANT Verdict
CHECK_DEADLOCK FALSE
