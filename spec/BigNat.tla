------------------------------- MODULE BigNat -------------------------------
(***************************************************************************)
(* Natural numbers as little-endian sequences of decimal digits, with      *)
(* schoolbook arithmetic.  TLC's integers are 32 bit; the literal space of *)
(* IEC 61131-3 contains 2^64, 2^127, 2^128 and nanosecond counts of years. *)
(* <<>> is zero; there are no leading (= trailing, little-endian) zeros.   *)
(***************************************************************************)
EXTENDS Naturals, Sequences

Digit == 0..9

RECURSIVE Trim(_)
Trim(a) == IF a = <<>> THEN <<>> ELSE IF a[Len(a)] = 0 THEN Trim(SubSeq(a, 1, Len(a) - 1)) ELSE a

\* a * k + c   for small k, c (k * 9 + c must stay below 2^31)
RECURSIVE MulAdd(_, _, _)
MulAdd(a, k, c) ==
  IF a = <<>> THEN (IF c = 0 THEN <<>> ELSE <<c % 10>> \o MulAdd(<<>>, k, c \div 10))
  ELSE LET t == a[1] * k + c
       IN  <<t % 10>> \o MulAdd(Tail(a), k, t \div 10)

MulSmall(a, k) == Trim(MulAdd(a, k, 0))
AddSmall(a, c) == Trim(MulAdd(a, 1, c))

RECURSIVE AddC(_, _, _)
AddC(a, b, c) ==
  IF a = <<>> /\ b = <<>> THEN (IF c = 0 THEN <<>> ELSE <<c>>)
  ELSE LET x == IF a = <<>> THEN 0 ELSE a[1]
           y == IF b = <<>> THEN 0 ELSE b[1]
           t == x + y + c
       IN  <<t % 10>> \o AddC(IF a = <<>> THEN <<>> ELSE Tail(a), IF b = <<>> THEN <<>> ELSE Tail(b), t \div 10)
Add(a, b) == Trim(AddC(a, b, 0))

\* a * 10^n
RECURSIVE Zeros(_)
Zeros(n) == IF n = 0 THEN <<>> ELSE <<0>> \o Zeros(n - 1)
Shift(a, n) == IF a = <<>> THEN <<>> ELSE Zeros(n) \o a

\* most-significant-first digits of some base b -> BigNat (Horner)
RECURSIVE FromBase(_, _, _)
FromBase(ds, b, acc) == IF ds = <<>> THEN acc ELSE FromBase(Tail(ds), b, Trim(MulAdd(acc, b, Head(ds))))
Horner(ds, b) == FromBase(ds, b, <<>>)

\* the same value as the positional sum  SUM ds[i] * b^(n-i)   (used to cross-check Horner)
RECURSIVE Pow(_, _)
Pow(b, n) == IF n = 0 THEN <<1>> ELSE MulSmall(Pow(b, n - 1), b)
RECURSIVE Positional(_, _)
Positional(ds, b) == IF ds = <<>> THEN <<>>
                     ELSE Add(MulSmall(Pow(b, Len(ds) - 1), Head(ds)), Positional(Tail(ds), b))

\* comparison
RECURSIVE LessMS(_, _)     \* equal-length most-significant-first
LessMS(a, b) == IF a = <<>> THEN FALSE ELSE IF Head(a) # Head(b) THEN Head(a) < Head(b) ELSE LessMS(Tail(a), Tail(b))
RECURSIVE Rev(_)
Rev(a) == IF a = <<>> THEN <<>> ELSE Rev(Tail(a)) \o <<Head(a)>>
Less(a, b) == IF Len(a) # Len(b) THEN Len(a) < Len(b) ELSE LessMS(Rev(a), Rev(b))

\* small natural -> BigNat
RECURSIVE OfNat(_)
OfNat(n) == IF n = 0 THEN <<>> ELSE <<n % 10>> \o OfNat(n \div 10)

\* most-significant-first decimal digits (what is printed); zero prints as <<0>>
Dec(a) == IF a = <<>> THEN <<0>> ELSE Rev(a)
=============================================================================
