------------------------------- MODULE Lexer -------------------------------
(***************************************************************************)
(* Lexical layer of ironplc: lexemes, their positions and the running      *)
(* line / column counters (compiler/parser/src/lexer.rs, token.rs).        *)
(*                                                                         *)
(* A text is a sequence of character CLASSES.  The machine scans it the    *)
(* way the implementation does - one lexeme (token or lexical error) per   *)
(* step - keeping (idx, pos, line, col).  Properties (C05):                *)
(*   Tiling       tokens and lexical errors partition the text, in order   *)
(*   LineColDecl  the running counters equal the declarative line/column   *)
(*                of the byte offset (number of LF before it / distance    *)
(*                to the last LF), in each of the three column units       *)
(*   Total        the scanner can always make a step before end of text    *)
(* The second half is the LSP semantic-token layer (C15): the class of a   *)
(* lexeme, the relative encoding and its inverse.                          *)
(***************************************************************************)
EXTENDS Naturals, Sequences, FiniteSets, TLC, Json

CONSTANTS Alphabet,     \* character classes that may occur in a text
          MaxLen,       \* texts of 0..MaxLen classes are enumerated
          Prefix,       \* "none", or "comment": every text starts with the opening of a comment, (* , which is not
                        \* counted in MaxLen (a focused configuration: comments that span several lines need 7 classes)
          Emit          \* TRUE: print one REPLAY record per finished behaviour

VARIABLES text,         \* Seq(Alphabet)
          idx,          \* index (1-based) of the next class to scan
          pos,          \* byte offset of the next class
          line,         \* 0-based line of pos
          colB, colC, colU,   \* 0-based column of pos in bytes / scalar values / UTF-16 units
          toks          \* history: lexemes scanned so far

vars == <<text, idx, pos, line, colB, colC, colU, toks>>

---------------------------------------------------------------------------
(* Character classes *)
Letters   == {"L", "E"}            \* E: the letter e/E (exponent marker)
IdStart   == Letters \cup {"U"}
IdCont    == IdStart \cup {"D"}
NumCont   == {"D", "U"}
Blank     == {"SP", "TAB"}
AllClasses == {"L","E","D","U","SP","TAB","LF","CR","FF","LP","RP","ST","SL","Q1","Q2","DOT","COL",
               "EQ","LT","GT","HASH","SEMI","PLUS","MINUS","COMMA","AMP","LB","RB","X2","X3","X4","BAD"}

Bytes(c) == CASE c = "X2" -> 2 [] c = "X3" -> 3 [] c = "X4" -> 4 [] OTHER -> 1
U16(c)   == IF c = "X4" THEN 2 ELSE 1

RECURSIVE RunLen(_, _, _)
RunLen(s, i, C) == IF i > Len(s) \/ s[i] \notin C THEN 0 ELSE 1 + RunLen(s, i + 1, C)

At(s, i) == IF i >= 1 /\ i <= Len(s) THEN s[i] ELSE "EOF"

\* index of the first j >= i with s[j] = c, 0 if none
RECURSIVE Find(_, _, _)
Find(s, i, c) == IF i > Len(s) THEN 0 ELSE IF s[i] = c THEN i ELSE Find(s, i + 1, c)

\* index of the first j >= i with s[j] = "ST" /\ s[j+1] = "RP", 0 if none   (IEC: the first *) closes)
RECURSIVE FindClose(_, _)
FindClose(s, i) == IF i + 1 > Len(s) THEN 0
                   ELSE IF s[i] = "ST" /\ s[i + 1] = "RP" THEN i ELSE FindClose(s, i + 1)

Punct1 == [LP |-> "LeftParen", RP |-> "RightParen", ST |-> "Star", SL |-> "Div", DOT |-> "Period",
           COL |-> "Colon", EQ |-> "Equal", LT |-> "Less", GT |-> "Greater", HASH |-> "Hash",
           SEMI |-> "Semicolon", PLUS |-> "Plus", MINUS |-> "Minus", COMMA |-> "Comma", AMP |-> "And",
           LB |-> "LeftBracket", RB |-> "RightBracket"]
Punct2 == { <<"COL", "EQ", "Assignment">>, <<"DOT", "DOT", "Range">>, <<"ST", "ST", "Power">>,
            <<"LT", "GT", "NotEqual">>, <<"LT", "EQ", "LessEqual">>, <<"GT", "EQ", "GreaterEqual">>,
            <<"EQ", "GT", "RightArrow">> }

(* All lexemes that can start at index i of s, as <<kind, length in classes>>.  The scanner takes the
   longest (maximal munch), as token.rs' generated automaton does. *)
Cands(s, i) ==
  LET c  == At(s, i)
      c2 == At(s, i + 1)
      d  == IF c = "D" THEN 1 + RunLen(s, i + 1, NumCont) ELSE 0
      f  == IF d > 0 /\ At(s, i + d) = "DOT" THEN RunLen(s, i + d + 1, NumCont) ELSE 0
      sg == IF f > 0 /\ At(s, i + d + 1 + f) = "E" /\ At(s, i + d + 2 + f) \in {"PLUS", "MINUS"} THEN 1 ELSE 0
      x  == IF f > 0 /\ At(s, i + d + 1 + f) = "E" THEN RunLen(s, i + d + 2 + f + sg, NumCont) ELSE 0
      cl == IF c = "LP" /\ c2 = "ST" THEN FindClose(s, i + 2) ELSE 0
      q1 == IF c = "Q1" THEN Find(s, i + 1, "Q1") ELSE 0
      q2 == IF c = "Q2" THEN Find(s, i + 1, "Q2") ELSE 0
      lc == IF c = "SL" /\ c2 = "SL" THEN 2 + RunLen(s, i + 2, AllClasses \ {"CR", "LF"}) ELSE 0
  IN  (IF c \in {"LF", "FF"} THEN {<<"Newline", 1>>} ELSE {})
      \cup (IF c = "CR" /\ c2 = "LF" THEN {<<"Newline", 2>>} ELSE {})
      \cup (IF c \in Blank THEN {<<"Whitespace", RunLen(s, i, Blank)>>} ELSE {})
      \cup (IF cl > 0 THEN {<<"Comment", cl + 2 - i>>} ELSE {})
      \cup (IF lc > 0 THEN {<<"Comment", lc + (IF At(s, i + lc) = "LF" THEN 1
                                               ELSE IF At(s, i + lc) = "CR" /\ At(s, i + lc + 1) = "LF" THEN 2 ELSE 0)>>}
            ELSE {})
      \cup (IF c \in IdStart THEN {<<"Identifier", 1 + RunLen(s, i + 1, IdCont)>>} ELSE {})
      \cup (IF d > 0 THEN {<<"Digits", d>>} ELSE {})
      \cup (IF f > 0 THEN {<<"FixedPoint", d + 1 + f>>} ELSE {})
      \cup (IF x > 0 THEN {<<"FloatingPoint", d + 1 + f + 1 + sg + x>>} ELSE {})
      \cup (IF q1 > 0 THEN {<<"SingleByteString", q1 - i + 1>>} ELSE {})
      \cup (IF q2 > 0 THEN {<<"DoubleByteString", q2 - i + 1>>} ELSE {})
      \cup (IF c \in DOMAIN Punct1 THEN {<<Punct1[c], 1>>} ELSE {})
      \cup {<<p[3], 2>> : p \in {q \in Punct2 : q[1] = c /\ q[2] = c2}}

Best(s, i) == CHOOSE b \in Cands(s, i) : \A o \in Cands(s, i) : b[2] >= o[2]

\* a lexeme that would have to be closed later but never is: the implementation reports a lexical
\* error of unspecified extent here (it does not fall back to the one-character token)
UntermStart(s, i) ==
  \/ At(s, i) = "LP" /\ At(s, i + 1) = "ST" /\ FindClose(s, i + 2) = 0
  \/ At(s, i) = "Q1" /\ Find(s, i + 1, "Q1") = 0
  \/ At(s, i) = "Q2" /\ Find(s, i + 1, "Q2") = 0

---------------------------------------------------------------------------
(* Position arithmetic *)
RECURSIVE SumBytes(_, _, _)
SumBytes(s, i, j) == IF i > j THEN 0 ELSE Bytes(s[i]) + SumBytes(s, i + 1, j)
RECURSIVE SumU16(_, _, _)
SumU16(s, i, j) == IF i > j THEN 0 ELSE U16(s[i]) + SumU16(s, i + 1, j)
RECURSIVE CountLF(_, _, _)
CountLF(s, i, j) == IF i > j THEN 0 ELSE (IF s[i] = "LF" THEN 1 ELSE 0) + CountLF(s, i + 1, j)
\* index of the last LF in s[i..j], 0 if none
RECURSIVE LastLF(_, _, _)
LastLF(s, i, j) == IF j < i THEN 0 ELSE IF s[j] = "LF" THEN j ELSE LastLF(s, i, j - 1)

(* The running update - exactly what a scanner that sees one lexeme at a time can do *)
Advance(n) ==
  LET j  == idx + n - 1
      nl == CountLF(text, idx, j)
      ll == LastLF(text, idx, j)
  IN  /\ idx'  = idx + n
      /\ pos'  = pos + SumBytes(text, idx, j)
      /\ line' = line + nl
      /\ colB' = IF nl > 0 THEN SumBytes(text, ll + 1, j) ELSE colB + SumBytes(text, idx, j)
      /\ colC' = IF nl > 0 THEN j - ll ELSE colC + n
      /\ colU' = IF nl > 0 THEN SumU16(text, ll + 1, j) ELSE colU + SumU16(text, idx, j)

Lexeme(k, n) == [k |-> k, i |-> idx, n |-> n, s |-> pos, e |-> pos + SumBytes(text, idx, idx + n - 1),
                 l |-> line, cb |-> colB, cc |-> colC, cu |-> colU]

AtEnd == idx > Len(text)

ScanToken == /\ ~AtEnd
             /\ Cands(text, idx) # {}
             /\ LET b == Best(text, idx)
                IN  /\ toks' = Append(toks, Lexeme(b[1], b[2]))
                    /\ Advance(b[2])
             /\ UNCHANGED text

ScanError == /\ ~AtEnd
             /\ Cands(text, idx) = {} \/ UntermStart(text, idx)
             /\ LET n == IF UntermStart(text, idx) THEN Len(text) - idx + 1 ELSE 1
                IN  /\ toks' = Append(toks, Lexeme("LexErr", n))
                    /\ Advance(n)
             /\ UNCHANGED text

PrefixSeq == IF Prefix = "comment" THEN <<"LP", "ST">> ELSE <<>>
Texts == {PrefixSeq \o t : t \in UNION {[1..n -> Alphabet] : n \in 0..MaxLen}}

Init == /\ text \in Texts
        /\ idx = 1 /\ pos = 0 /\ line = 0 /\ colB = 0 /\ colC = 0 /\ colU = 0
        /\ toks = <<>>

Next == ScanToken \/ ScanError
Spec == Init /\ [][Next]_vars

---------------------------------------------------------------------------
(* Properties *)
TypeOK == /\ idx \in 1..(Len(text) + 1)
          /\ pos = SumBytes(text, 1, idx - 1)

NoTie == idx = 1 => \A i \in 1..Len(text) : \A a, b \in Cands(text, i) : a[2] = b[2] => a = b

Tiling == /\ \A k \in 1..Len(toks) : toks[k].e > toks[k].s /\ toks[k].n >= 1
          /\ \A k \in 1..(Len(toks) - 1) : toks[k].e = toks[k + 1].s /\ toks[k].i + toks[k].n = toks[k + 1].i
          /\ toks # <<>> => toks[1].s = 0 /\ toks[1].i = 1
          /\ toks # <<>> => toks[Len(toks)].e = pos
          /\ AtEnd => pos = SumBytes(text, 1, Len(text))

LineColDecl ==
  LET ll == LastLF(text, 1, idx - 1)
  IN  /\ line = CountLF(text, 1, idx - 1)
      /\ colB = SumBytes(text, ll + 1, idx - 1)
      /\ colC = (idx - 1) - ll
      /\ colU = SumU16(text, ll + 1, idx - 1)

Total == ~AtEnd => ENABLED Next

---------------------------------------------------------------------------
(* Semantic tokens (C15).  Class of an implementation token kind; "none" = not highlighted.
   More than one class = either is accepted (the property fixes the classes keyword / identifier /
   comment / operator / address; which of the legend's 'keyword' / 'modifier' / 'string' entries a
   keyword gets is the server's choice). *)
Operators == {"Or","Xor","And","Equal","NotEqual","Less","Greater","LessEqual","GreaterEqual","Div","Star",
              "Plus","Minus","Mod","Power","Not","Assignment"}
Punctuation == {"LeftParen","RightParen","LeftBrace","RightBrace","LeftBracket","RightBracket","Comma",
                "Semicolon","Colon","Period","Hash"}
Literals == {"SingleByteString","DoubleByteString","HexDigits","OctDigits","BinDigits","FloatingPoint",
             "FixedPoint","Digits"}
Trivia == {"Newline","Whitespace"}

ClassOf(kind) ==
  CASE kind = "Identifier"                                   -> {"variable"}
    [] kind = "Comment"                                      -> {"comment"}
    [] kind \in Operators                                    -> {"operator"}
    [] kind \in {"Range", "RightArrow"}                      -> {"operator", "keyword"}
    [] kind \in {"DirectAddress", "DirectAddressIncomplete"} -> {"operator"}
    [] kind \in Punctuation \cup Literals \cup Trivia        -> {"none"}
    [] kind \in {"Retain", "Constant", "NonRetain"}          -> {"modifier", "keyword"}
    [] kind = "String"                                       -> {"string", "keyword"}
    [] OTHER                                                 -> {"keyword"}

AllKinds == Operators \cup Punctuation \cup Literals \cup Trivia \cup
            {"Identifier", "Comment", "Range", "RightArrow", "DirectAddress", "DirectAddressIncomplete",
             "Retain", "Constant", "NonRetain", "String"}
\* printed once so that the driver takes the classification from the specification, not from a private list
ClassTable == [k \in AllKinds |-> ClassOf(k)]
ASSUME PrintT(ToJson([R |-> "classes", table |-> ClassTable, keyword_default |-> ClassOf("If")]))

(* Relative encoding of a sequence of <<line, col, len, cls>> and its inverse *)
RECURSIVE Encode(_, _, _)
Encode(ts, pl, pc) ==
  IF ts = <<>> THEN <<>>
  ELSE LET t == Head(ts)
           dl == t[1] - pl
           ds == IF dl = 0 THEN t[2] - pc ELSE t[2]
       IN  <<dl, ds, t[3], t[4]>> \o Encode(Tail(ts), t[1], t[2])

RECURSIVE Decode(_, _, _)
Decode(data, pl, pc) ==
  IF Len(data) < 4 THEN <<>>
  ELSE LET l == pl + data[1]
           c == IF data[1] = 0 THEN pc + data[2] ELSE data[2]
       IN  <<<<l, c, data[3], data[4]>>>> \o Decode(SubSeq(data, 5, Len(data)), l, c)

\* the highlighted lexemes of this run (model kinds: Identifier, Comment, operators)
Highlighted == SelectSeq(toks, LAMBDA t : t.k # "LexErr" /\ ClassOf(t.k) # {"none"})
AsSemTok(t) == <<t.l, t.cu, t.n, CHOOSE c \in ClassOf(t.k) : TRUE>>
SemToks == [k \in 1..Len(Highlighted) |-> AsSemTok(Highlighted[k])]

Increasing(ts) == \A k \in 1..(Len(ts) - 1) :
                     \/ ts[k][1] < ts[k + 1][1]
                     \/ ts[k][1] = ts[k + 1][1] /\ ts[k][2] + ts[k][3] <= ts[k + 1][2]

\* every component of the encoding of an increasing sequence is a natural number, and decoding inverts it
CodecRoundTrip == AtEnd => /\ Decode(Encode(SemToks, 0, 0), 0, 0) = SemToks
                           /\ \A k \in 1..(4 * Len(SemToks)) : (k % 4 # 0) => Encode(SemToks, 0, 0)[k] \in Nat
\* single-line lexemes never overlap and are ordered (multi-line comments are one lexeme on their first line)
SemTokOrdered == AtEnd => \A k \in 1..(Len(SemToks) - 1) :
                     \/ SemToks[k][1] < SemToks[k + 1][1]
                     \/ SemToks[k][1] = SemToks[k + 1][1] /\ SemToks[k][2] < SemToks[k + 1][2]

---------------------------------------------------------------------------
(* Behaviour export for spec -> implementation replay *)
Replay == [R |-> "lex", text |-> text,
           toks |-> [k \in 1..Len(toks) |-> <<toks[k].k, toks[k].s, toks[k].e, toks[k].l,
                                               toks[k].cb, toks[k].cc, toks[k].cu>>],
           \* highlighted lexemes: line, column and length in the three units, kind
           hl |-> [k \in 1..Len(Highlighted) |->
                      LET t == Highlighted[k]
                      IN  <<t.l, t.cb, t.cc, t.cu, t.e - t.s, t.n, SumU16(text, t.i, t.i + t.n - 1), t.k>>],
           err |-> (\E k \in 1..Len(toks) : toks[k].k = "LexErr")]
EmitReplay == (Emit /\ AtEnd) => PrintT(ToJson(Replay))
=============================================================================
