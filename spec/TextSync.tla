------------------------------ MODULE TextSync ------------------------------
(***************************************************************************)
(* Text document synchronisation of the language server protocol: what a   *)
(* document IS after a textDocument/didChange.                             *)
(*                                                                         *)
(* A document is a sequence of characters.  A character has a width in     *)
(* UTF-8 bytes (what the compiler counts) and in UTF-16 code units (what   *)
(* the protocol counts): a 1/1, e 2/1, u 3/1, s 4/2 (an astral character,  *)
(* two code units), n = line feed 1/1.  A position is <<line, character>>, *)
(* character counted in UTF-16 code units from the start of the line.      *)
(*                                                                         *)
(* Full synchronisation (what the server advertises at the pinned commit): *)
(* a change carries the whole new text.  Incremental synchronisation: a    *)
(* change carries a range and the text that replaces it.  Either way the   *)
(* document afterwards is Splice(doc, from, to, ins) - the driver sends    *)
(* the change in the form the server's capabilities ask for, and the       *)
(* observable result (semantic tokens of the document) must be that of a   *)
(* fresh server given the spliced text.                                    *)
(***************************************************************************)
EXTENDS Naturals, Sequences, TLC, Json

CONSTANTS Chars,      \* subset of {"a", "e", "u", "s", "n"}
          MaxLen,     \* length bound of the initial document
          Inserts,    \* set of names of inserted texts: "-" (nothing), "a", "e", "u", "s", "n", "ea", "sn", "na"
          Emit

VARIABLES doc, edits, done
vars == <<doc, edits, done>>

U16(c) == IF c = "s" THEN 2 ELSE 1
U8(c)  == CASE c = "a" -> 1 [] c = "n" -> 1 [] c = "e" -> 2 [] c = "u" -> 3 [] c = "s" -> 4

Docs == UNION {[1..n -> Chars] : n \in 0..MaxLen}

\* position of the boundary BEFORE character i + 1 (i = 0..Len(d)): line = number of line feeds among d[1..i],
\* character = UTF-16 units since the last line feed
RECURSIVE PosOf(_, _)
PosOf(d, i) == IF i = 0 THEN <<0, 0>>
               ELSE LET p == PosOf(d, i - 1)
                    IN  IF d[i] = "n" THEN <<p[1] + 1, 0>> ELSE <<p[1], p[2] + U16(d[i])>>
\* the boundary a position denotes: the unique i with PosOf(d, i) = pos (positions inside a surrogate pair denote none)
Boundary(d, pos) == {i \in 0..Len(d) : PosOf(d, i) = pos}

InsText(k) == CASE k = "-" -> <<>> [] k = "ea" -> <<"e", "a">> [] k = "sn" -> <<"s", "n">> [] k = "na" -> <<"n", "a">> [] OTHER -> <<k>>
Splice(d, from, to, ins) == SubSeq(d, 1, from) \o ins \o SubSeq(d, to + 1, Len(d))

Init == doc \in Docs /\ edits = <<>> /\ done = FALSE

\* one change: replace the characters between two boundaries
Edit(from, to, ins) ==
  /\ ~done /\ Len(edits) < 1
  /\ from <= to
  /\ edits' = Append(edits, [from |-> PosOf(doc, from), to |-> PosOf(doc, to), ins |-> InsText(ins), before |-> doc,
                             after |-> Splice(doc, from, to, InsText(ins))])
  /\ doc' = Splice(doc, from, to, InsText(ins))
  /\ UNCHANGED done
Finish == ~done /\ edits # <<>> /\ done' = TRUE /\ UNCHANGED <<doc, edits>>
Next == (\E from \in 0..Len(doc), to \in 0..Len(doc), ins \in Inserts : Edit(from, to, ins)) \/ Finish
Spec == Init /\ [][Next]_vars

---------------------------------------------------------------------------
\* every boundary has a position of its own: a range sent by a client denotes exactly one splice
PositionsDistinct == \A i, j \in 0..Len(doc) : PosOf(doc, i) = PosOf(doc, j) => i = j
\* ... and a position is at most one boundary
PositionIsOneBoundary == \A i \in 0..Len(doc) : Boundary(doc, PosOf(doc, i)) = {i}
\* the byte offset of a boundary (what the compiler's spans count) is NOT its UTF-16 offset as soon as a character is wide
RECURSIVE Bytes(_, _)
Bytes(d, i) == IF i = 0 THEN 0 ELSE Bytes(d, i - 1) + U8(d[i])
\* a change never touches what lies outside its range: the bytes before `from` and after `to` are the bytes of the result
Untouched == \A k \in 1..Len(edits) :
               LET e == edits[k]
                   f == CHOOSE i \in Boundary(e.before, e.from) : TRUE
                   t == CHOOSE i \in Boundary(e.before, e.to) : TRUE
               IN  /\ SubSeq(e.after, 1, f) = SubSeq(e.before, 1, f)
                   /\ SubSeq(e.after, Len(e.after) - (Len(e.before) - t) + 1, Len(e.after)) = SubSeq(e.before, t + 1, Len(e.before))
                   /\ Bytes(e.after, Len(e.after)) = Bytes(e.before, f) + Bytes(e.ins, Len(e.ins)) + (Bytes(e.before, Len(e.before)) - Bytes(e.before, t))

Replay == [R |-> "sync", edits |-> edits, final |-> doc]
EmitReplay == (Emit /\ done) => PrintT(ToJson(Replay))
=============================================================================
