SPECIFICATION Spec
CONSTANTS
  NNodes = 16
  Emit = TRUE
  RandomGraphs = 0
  EdgeCounts = {}
  Shapes = {"chain", "ladder", "fan", "dense", "chain+back", "ladder+back", "fan+back", "dense+back", "chain+selfloop-at-end"}
  SliceK = 0
  SliceM = 1
INVARIANTS EmitReplay
CHECK_DEADLOCK FALSE
