SPECIFICATION Spec
CONSTANTS
  Chars = {"a", "e", "u", "s", "n"}
  MaxLen = 3
  Inserts = {"-", "a", "s", "n", "ea"}
  Emit = TRUE
INVARIANTS PositionsDistinct PositionIsOneBoundary Untouched EmitReplay
CHECK_DEADLOCK FALSE
