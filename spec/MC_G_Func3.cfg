SPECIFICATION Spec
CONSTANTS
  Start = "lib_func"
  Fuel = 3
  Quarantine = {}
  Only = {}
  Allow = {}
  Emit = TRUE
INVARIANTS OneValue NothingDropped Terminates PrecedenceShape EmitReplay
CHECK_DEADLOCK FALSE
