SPECIFICATION TSpec
CONSTANTS
  DirOf <- MCDirOf
  ClassOf <- MCClassOf
  Provider <- MCProvider
  DirNames <- MCDirNames
  BadDirs <- MCBadDirs
  MaxArgs = 1000
  Commands = {"check", "echo", "tokenize"}
  Encodings = {"utf8"}
  Verbosities = {0}
  Emit = FALSE
INVARIANTS TraceInv Verdict
CHECK_DEADLOCK FALSE
