SPECIFICATION Spec
CONSTANTS
  NUri = 2
  NText = 2
  MaxHist = 2
  Kinds = {"open", "change0", "change1", "change2", "open_nf", "semtok", "unkreq", "unknotif", "cresp", "shutdown", "badreq", "badnotif"}
  Emit = FALSE
  Deviations = {"CrashOnBadParams"}
INVARIANTS Survives
CHECK_DEADLOCK FALSE
