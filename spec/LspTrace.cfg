SPECIFICATION TSpec
CONSTANTS
  NUri = 2
  NText = 1000000
  MaxHist = 1000000
  Kinds = {"open", "change0", "change1", "change2", "open_nf", "semtok", "unkreq", "unknotif", "cresp", "close", "badreq", "badnotif", "shutdown", "early"}
  Emit = FALSE
  Deviations = {}
INVARIANTS TraceInv Verdict
CHECK_DEADLOCK FALSE
