-------------------------------- MODULE Lsp --------------------------------
(***************************************************************************)
(* The language server (compiler/plc2x/src/lsp.rs, lsp_project.rs,         *)
(* project.rs, source.rs) as a message-driven state machine.               *)
(*                                                                         *)
(* The server is sequential: each client message is one atomic server step *)
(* that appends its replies to `out`.  The project keeps, per document,    *)
(* the current text and a memoised parse (`cache`); diagnostics and        *)
(* semantic tokens are *uninterpreted functions of the current document    *)
(* state* - C11 is relational, so the specification only has to say what   *)
(* the replies may depend on.  The conformance driver instantiates them    *)
(* with a table measured on freshly started servers.                       *)
(*                                                                         *)
(* C11: PublishExactlyOnce, CacheCoherent (=> history independence)        *)
(* C12: AnswerExactlyOnce, NeverAnswerNotification, UnknownGetsError,      *)
(*      Survives, ShutdownThenExit, and EventuallyAnswered (liveness)      *)
(***************************************************************************)
EXTENDS Naturals, Sequences, FiniteSets, TLC, Json

CONSTANTS NUri,        \* documents with a file: URI are 1..NUri; 0 is a non-file URI (never stored)
          NText,       \* document texts are 1..NText
          MaxHist,     \* length bound of a history
          Kinds,       \* message kinds the client may send
          Emit,        \* print one REPLAY record per maximal history
          Deviations   \* named deviations of an implementation, all disabled in the design model

VARIABLES docs,        \* [1..NUri -> 0..NText]   0 = not open
          cache,       \* [1..NUri -> 0..NText]   memoised parse: 0 = none, t = Parse(text t)
          out,         \* sequence of server -> client messages
          hist,        \* sequence of client -> server messages (the stimulus)
          phase,       \* "Running" | "ShutDown" | "Exited" | "Crashed"
          pending      \* request ids received and not yet answered
vars == <<docs, cache, out, hist, phase, pending>>

Uris  == 1..NUri
Texts == 1..NText
Step  == Len(hist) + 1          \* message number: used as version and as request id

None == 0
St(d) == [u \in Uris |-> d[u]]  \* the document state a reply may depend on

---------------------------------------------------------------------------
(* Project layer: change_text_document replaces the Source (text + empty memo);
   semantic() parses every document whose memo is empty. *)
SetDoc(u, t) == /\ docs'  = [docs EXCEPT ![u] = t]
                /\ cache' = [v \in Uris |-> IF v = u
                                             THEN (IF "StaleMemo" \in Deviations /\ cache[u] # None
                                                   THEN cache[u]        \* deviation: memo survives the edit
                                                   ELSE t)
                                             ELSE (IF docs[v] = None THEN None
                                                   ELSE IF cache[v] # None THEN cache[v] ELSE docs[v])]
\* after semantic(): every open document is parsed; what analysis sees is the memo
Seen == [u \in Uris |-> cache'[u]]

Pub(u, v, st) == [k |-> "pub", u |-> u, v |-> v, st |-> st]
Resp(id, what, u, st) == [k |-> "resp", id |-> id, what |-> what, u |-> u, st |-> st]
Err(id) == [k |-> "err", id |-> id]
ErrP(id) == [k |-> "errp", id |-> id]     \* an error response other than "method not found" (invalid parameters)

Record(m) == hist' = Append(hist, m)

Running == phase = "Running" /\ Len(hist) < MaxHist

ChangeKind(n) == CASE n = 0 -> "change0" [] n = 1 -> "change1" [] OTHER -> "change2"

\* the version is the client's business: usually growing, but a document that is closed and opened again starts low
\* again (0 here: lower than every version seen before, under either spelling of the document's URI) (the server does not implement didClose) - whatever the number, the text of the notification is the document
Versions == IF "lowver" \in Kinds THEN {Step, 0} ELSE {Step}
DidOpen(u, t) ==
  /\ Running /\ "open" \in Kinds
  /\ SetDoc(u, t)
  /\ \E v \in Versions :
        /\ out' = Append(out, Pub(u, v, Seen))
        /\ Record([k |-> "open", u |-> u, t |-> t, v |-> v])
  /\ UNCHANGED <<phase, pending>>

\* full-text synchronisation: every change carries a whole text, applied in order => the last one wins;
\* an empty change list changes nothing, but the notification is still answered
DidChange(u, ts) ==
  /\ Running /\ ChangeKind(Len(ts)) \in Kinds
  /\ IF ts = <<>> THEN /\ UNCHANGED docs
                       /\ cache' = [v \in Uris |-> IF docs[v] # None THEN (IF cache[v] # None THEN cache[v] ELSE docs[v]) ELSE None]
                  ELSE SetDoc(u, IF "FirstChangeWins" \in Deviations THEN ts[1] ELSE ts[Len(ts)])
  /\ out' = Append(out, Pub(u, Step, Seen))
  /\ Record([k |-> "change", u |-> u, ts |-> ts, v |-> Step])
  /\ UNCHANGED <<phase, pending>>

\* notifications about a URI that is not a file: nothing is stored, the (empty) state is still published
DidOpenNonFile(t) ==
  /\ Running /\ "open_nf" \in Kinds
  /\ out' = Append(out, Pub(0, Step, St(docs)))
  /\ Record([k |-> "open", u |-> 0, t |-> t, v |-> Step])
  /\ UNCHANGED <<docs, cache, phase, pending>>

SemTok(u) ==
  /\ Running /\ "semtok" \in Kinds
  /\ out' = Append(out, Resp(Step, "semtok", u, IF u = 0 THEN None ELSE docs[u]))
  /\ Record([k |-> "semtok", u |-> u, id |-> Step])
  /\ UNCHANGED <<docs, cache, phase, pending>>

UnknownReq ==
  /\ Running /\ "unkreq" \in Kinds
  /\ IF "DropUnknownRequest" \in Deviations
        THEN out' = out /\ pending' = pending \cup {Step}
        ELSE out' = Append(out, Err(Step)) /\ UNCHANGED pending
  /\ Record([k |-> "unkreq", id |-> Step])
  /\ UNCHANGED <<docs, cache, phase>>

\* notifications the server does not implement - w selects the method: didSave, didChangeConfiguration, $/setTrace,
\* a method nobody knows, and $/cancelRequest (naming the latest request, which - the server being sequential - has
\* been answered already).  A notification is never answered, whatever it says.
NotifMethods == 0..4
UnknownNotif(w) ==
  /\ Running /\ "unknotif" \in Kinds
  /\ Record([k |-> "unknotif", w |-> w])
  /\ UNCHANGED <<docs, cache, out, phase, pending>>

\* Well-formed JSON-RPC, but the params do not fit the method (w selects the shape: an empty object, null, no params
\* member at all, a member of the wrong type, a URI that is none).  For the methods the server implements this is
\* the one case in which it cannot do what was asked: a request is still a request and is answered (with an error),
\* a notification is never answered; either way nothing is stored and the server lives on.
BadShapes == 0..4
BadParamsReq(w) ==
  /\ Running /\ "badreq" \in Kinds
  /\ IF "CrashOnBadParams" \in Deviations
        THEN phase' = "Crashed" /\ out' = out /\ pending' = pending \cup {Step}
        ELSE out' = Append(out, ErrP(Step)) /\ UNCHANGED <<phase, pending>>
  /\ Record([k |-> "badreq", id |-> Step, w |-> w])
  /\ UNCHANGED <<docs, cache>>
\* m selects the method: 0 = didOpen, 1 = didChange
BadParamsNotif(m, w) ==
  /\ Running /\ "badnotif" \in Kinds
  /\ Record([k |-> "badnotif", m |-> m, w |-> w])
  /\ IF "CrashOnBadParams" \in Deviations THEN phase' = "Crashed" ELSE UNCHANGED phase
  /\ UNCHANGED <<docs, cache, out, pending>>

\* didClose: the server does not implement it - the project keeps the document as it was last edited, nothing is sent
DidClose(u) ==
  /\ Running /\ "close" \in Kinds
  /\ Record([k |-> "close", u |-> u])
  /\ UNCHANGED <<docs, cache, out, phase, pending>>

ClientResponse ==
  /\ Running /\ "cresp" \in Kinds
  /\ Record([k |-> "cresp", id |-> Step])
  /\ IF "CrashOnResponse" \in Deviations THEN phase' = "Crashed" ELSE UNCHANGED phase
  /\ UNCHANGED <<docs, cache, out, pending>>

Shutdown ==
  /\ phase = "Running" /\ "shutdown" \in Kinds
  /\ Len(hist) = MaxHist \/ ("early" \in Kinds /\ Len(hist) >= 1)
  /\ out' = Append(out, Resp(Step, "shutdown", 0, None))
  /\ Record([k |-> "shutdown", id |-> Step])
  /\ phase' = "ShutDown"
  /\ UNCHANGED <<docs, cache, pending>>

Exit ==
  /\ phase = "ShutDown"
  /\ Record([k |-> "exit"])
  /\ phase' = "Exited"
  /\ UNCHANGED <<docs, cache, out, pending>>

ChangeLists == {<<>>} \cup {<<t>> : t \in Texts} \cup {<<t1, t2>> : t1 \in Texts, t2 \in Texts}

ClientStep == \/ \E u \in Uris, t \in Texts : DidOpen(u, t)
              \/ \E u \in Uris, ts \in ChangeLists : DidChange(u, ts)
              \/ \E t \in Texts : DidOpenNonFile(t)
              \/ \E u \in Uris \cup {0} : SemTok(u)
              \/ UnknownReq \/ (\E w \in NotifMethods : UnknownNotif(w)) \/ ClientResponse
              \/ (\E u \in Uris : DidClose(u))
              \/ (\E w \in BadShapes : BadParamsReq(w)) \/ (\E m \in 0..1, w \in BadShapes : BadParamsNotif(m, w))

\* lsp.rs start_with_connection: with a workspace folder the project is initialised from the .st / .iec files in it
\* (project.rs initialize) before the first message is handled - exactly as if each had been opened; their memo is
\* empty.  The folder's contents d are recorded as the first element of the history (no message corresponds to it).
Boot(d) ==
  /\ phase = "Boot"
  /\ docs' = d /\ cache' = [u \in Uris |-> None]
  /\ hist' = <<[k |-> "ws", d |-> d]>>
  /\ phase' = "Running"
  /\ UNCHANGED <<out, pending>>

Next == ClientStep \/ Shutdown \/ Exit \/ (\E d \in [Uris -> 0..NText] : Boot(d))

Init == /\ docs = [u \in Uris |-> None] /\ cache = [u \in Uris |-> None]
        /\ out = <<>> /\ hist = <<>> /\ phase = (IF "ws" \in Kinds THEN "Boot" ELSE "Running") /\ pending = {}

Spec == Init /\ [][Next]_vars
FairSpec == Spec /\ WF_vars(Next)

---------------------------------------------------------------------------
(* C11 *)
\* the memo never disagrees with the text it was made from
CacheCoherent == \A u \in Uris : cache[u] # None => cache[u] = docs[u]

\* the documents the project holds are the ones the protocol defines: the text of the last didOpen, or the LAST
\* content change of the last non-empty didChange, per document (full-text synchronisation) - computed from the
\* history alone, independently of the actions above
ProtocolDocs ==
  LET F[i \in 0..Len(hist)] ==
        IF i = 0 THEN [u \in Uris |-> None]
        ELSE LET m == hist[i] IN
             IF m.k = "ws" THEN m.d
             ELSE IF m.k = "open" /\ m.u \in Uris THEN [F[i - 1] EXCEPT ![m.u] = m.t]
             ELSE IF m.k = "change" /\ m.u \in Uris /\ m.ts # <<>> THEN [F[i - 1] EXCEPT ![m.u] = m.ts[Len(m.ts)]]
             ELSE F[i - 1]
  IN  F[Len(hist)]
DocsFollowProtocol == docs = ProtocolDocs

\* every didOpen / didChange appends exactly one publish for that document, with the notification's version,
\* whose content is a function of the *new* document state only
PublishExactlyOnce ==
  [][ (Len(hist') = Len(hist) + 1 /\ hist'[Len(hist')].k \in {"open", "change"}) =>
         LET m == hist'[Len(hist')]
         IN  /\ Len(out') = Len(out) + 1
             /\ out'[Len(out')] = Pub(m.u, m.v, St(docs')) ]_vars

\* publishes and notifications correspond one to one, in order
PublishesMatchNotifications ==
  LET ns == SelectSeq(hist, LAMBDA m : m.k \in {"open", "change"})
      ps == SelectSeq(out, LAMBDA m : m.k = "pub")
  IN  /\ Len(ns) = Len(ps)
      /\ \A i \in 1..Len(ns) : ps[i].u = ns[i].u /\ ps[i].v = ns[i].v

(* C12 *)
Requests == {m.id : m \in {hist[i] : i \in {j \in 1..Len(hist) : hist[j].k \in {"semtok", "unkreq", "badreq", "shutdown"}}}}
AnswersTo(id) == {i \in 1..Len(out) : out[i].k \in {"resp", "err", "errp"} /\ out[i].id = id}

AnswerExactlyOnce == \A id \in Requests \ pending : Cardinality(AnswersTo(id)) = 1
NoPendingAtRest   == pending = {}
NeverAnswerNotification == \A i \in 1..Len(out) : out[i].k \in {"resp", "err", "errp"} => out[i].id \in Requests
UnknownGetsError == \A i \in 1..Len(hist) : hist[i].k = "unkreq" /\ hist[i].id \notin pending =>
                        \E j \in 1..Len(out) : out[j] = Err(hist[i].id)
BadParamsGetsError == \A i \in 1..Len(hist) : hist[i].k = "badreq" /\ hist[i].id \notin pending =>
                        \E j \in 1..Len(out) : out[j] = ErrP(hist[i].id)
Survives == phase # "Crashed"
ShutdownThenExit == phase = "Exited" => hist[Len(hist)].k = "exit" /\ hist[Len(hist) - 1].k = "shutdown"
EventuallyAnswered == \A id \in 1..(MaxHist + 2) : (id \in pending) ~> (id \notin pending)

---------------------------------------------------------------------------
Replay == [R |-> "lsp", hist |-> hist, out |-> out, phase |-> phase]
Maximal == phase = "Exited" \/ (phase = "Running" /\ Len(hist) = MaxHist /\ "shutdown" \notin Kinds)
EmitReplay == (Emit /\ Maximal) => PrintT(ToJson(Replay))
=============================================================================
