SPECIFICATION TSpec
CONSTANTS
  Names = {}
  MaxDepth = 1000000
  MaxOps = 1000000
  Deviations = {}
INVARIANTS TraceInv Verdict
CHECK_DEADLOCK FALSE
