SPECIFICATION Spec
CONSTANTS
  Start = "lib_func"
  Fuel = 1
  Quarantine = {}
  Only = {}
  Offsets = {0, 1, 2, 3, 4, 5, 6, 7, 8, 9, 10, 11, 12, 13, 14, 15, 16, 17, 18, 19, 20, 21, 22}
  Allow = {}
  Emit = TRUE
INVARIANTS OneValue NothingDropped Terminates PrecedenceShape EmitReplay
CHECK_DEADLOCK FALSE
