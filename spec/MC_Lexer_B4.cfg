SPECIFICATION Spec
CONSTANTS
  Alphabet = {"D","U","DOT","E","PLUS","HASH","L"}
  MaxLen = 4
  Prefix = "none"
  Emit = TRUE
INVARIANTS TypeOK NoTie Tiling LineColDecl Total CodecRoundTrip SemTokOrdered EmitReplay
CHECK_DEADLOCK FALSE
