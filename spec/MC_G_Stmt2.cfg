SPECIFICATION Spec
CONSTANTS
  Start = "lib_stmt"
  Fuel = 2
  Quarantine = {}
  Only = {}
  Offsets = {0}
  Allow = {}
  Emit = TRUE
INVARIANTS OneValue NothingDropped Terminates PrecedenceShape EmitReplay
CHECK_DEADLOCK FALSE
