SPECIFICATION Spec
CONSTANTS
  NUri = 2
  NText = 3
  MaxHist = 3
  Kinds = {"open", "change0", "change1", "change2", "open_nf", "semtok", "unkreq", "unknotif", "cresp", "close", "badreq", "badnotif", "shutdown"}
  Emit = TRUE
  Deviations = {}
INVARIANTS CacheCoherent DocsFollowProtocol PublishesMatchNotifications AnswerExactlyOnce NoPendingAtRest NeverAnswerNotification UnknownGetsError BadParamsGetsError Survives ShutdownThenExit EmitReplay
PROPERTIES PublishExactlyOnce
CHECK_DEADLOCK FALSE
