SPECIFICATION Spec
CONSTANTS
  Kinds = {"dur"}
  Emit = TRUE
INVARIANTS ValueTwoWays LeapSanity EmitReplay
CHECK_DEADLOCK FALSE
