SPECIFICATION Spec
CONSTANTS
  Kinds = {"dur"}
  Emit = TRUE
INVARIANTS ValueTwoWays LeapSanity TrailingZerosNeutral SubNanoInexact EmitReplay
CHECK_DEADLOCK FALSE
