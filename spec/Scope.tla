------------------------------- MODULE Scope -------------------------------
(***************************************************************************)
(* The scoped symbol table of the analyzer (analyzer/src/symbol_table.rs)  *)
(* and the discipline its users follow.                                    *)
(*                                                                         *)
(* The table is a stack of scopes; a scope is a set of names.  `find`      *)
(* sees every scope of the stack.  Two users:                              *)
(*   "decl"  rule_use_declared_symbolic_var: one walk over the library;    *)
(*           every function / function block / program / configuration     *)
(*           opens a scope of its own, declares its name and its variables *)
(*           IN that scope and leaves it at its end.  Nothing is ever      *)
(*           declared in the root scope - so what one declaration declares *)
(*           is invisible in its siblings (C02: an undeclared variable is  *)
(*           reported whatever the neighbours declare; C06: whatever the   *)
(*           order of the neighbours).                                     *)
(*   "type"  xform_resolve_late_bound_type_initializer: types are global;  *)
(*           everything is declared in the root scope with try_add (a name *)
(*           that is already there is a duplicate definition, P0019).      *)
(*                                                                         *)
(* Model checking (MC_Scope.cfg): all operation sequences up to a bound.   *)
(* Binding: ScopeTrace.tla validates the operations recorded by the        *)
(* guarded hook in symbol_table.rs for every analysed unit.                *)
(***************************************************************************)
EXTENDS Naturals, Sequences, FiniteSets

CONSTANTS Names,        \* the names a walk may declare or look up
          MaxDepth,     \* bound on the nesting of scopes (model checking only)
          MaxOps,       \* bound on the number of operations (model checking only)
          Deviations    \* named wrong designs, all disabled in the design model

VARIABLES stack,        \* sequence of sets of names; stack[1] is the innermost scope, the last element the root scope
          user,         \* "decl" | "type"
          nops,
          lastFind      \* <<name, result>> of the last find (observation), <<>> before
vars == <<stack, user, nops, lastFind>>

Root == stack[Len(stack)]
Visible == UNION {stack[i] : i \in 1..Len(stack)}

Init == /\ stack = << {} >> /\ user \in {"decl", "type"} /\ nops = 0 /\ lastFind = <<>>

Count == nops' = nops + 1 /\ UNCHANGED user

Enter == /\ stack' = << {} >> \o stack
         /\ Count /\ UNCHANGED lastFind
\* the root scope is never left
Exit  == /\ Len(stack) > 1
         /\ stack' = Tail(stack)
         /\ Count /\ UNCHANGED lastFind
Add(k) == /\ stack' = [stack EXCEPT ![1] = @ \cup {k}]
          /\ Count /\ UNCHANGED lastFind
\* try_add: tells whether the innermost scope already had the name; the name is in the scope afterwards either way
TryAdd(k, existed) == /\ existed = (k \in stack[1])
                      /\ stack' = [stack EXCEPT ![1] = @ \cup {k}]
                      /\ Count /\ UNCHANGED lastFind
Find(k, found) == /\ found = (k \in Visible)
                  /\ lastFind' = <<k, found>>
                  /\ Count /\ UNCHANGED stack

(* what the two users do *)
\* the declaration walk declares inside a declaration's scope only ...
DeclStep == \/ (Len(stack) = 1 /\ Len(stack) < MaxDepth /\ Enter)
            \/ (Len(stack) > 1 /\ Exit)
            \/ (\E k \in Names : (Len(stack) > 1 \/ "DeclareInRoot" \in Deviations) /\ Add(k))
            \/ (\E k \in Names, f \in BOOLEAN : Find(k, f))
\* ... the type walk declares in the root scope only, with try_add, and never opens a scope
TypeStep == \/ (\E k \in Names, e \in BOOLEAN : TryAdd(k, e))
            \/ (\E k \in Names, f \in BOOLEAN : Find(k, f))

Next == nops < MaxOps /\ ((user = "decl" /\ DeclStep) \/ (user = "type" /\ TypeStep))
Spec == Init /\ [][Next]_vars

---------------------------------------------------------------------------
RootNeverLeft == Len(stack) >= 1
\* the declaration walk never declares anything in the root scope ...
RootStaysEmpty == user = "decl" => Root = {}
\* ... hence between two declarations nothing is visible: siblings are isolated from each other
SiblingsIsolated == (user = "decl" /\ Len(stack) = 1) => Visible = {}
\* the observation of a look-up is exactly membership in the visible names
FindIsMembership == [][lastFind' # lastFind => (lastFind'[2] <=> (lastFind'[1] \in Visible))]_vars
\* leaving a scope forgets exactly what was declared in it
ExitForgets == [][Len(stack') < Len(stack) => stack' = Tail(stack)]_vars
TypeWalkIsFlat == user = "type" => Len(stack) = 1
=============================================================================
