----------------------------- MODULE LexerTrace -----------------------------
(***************************************************************************)
(* Trace validation of token streams recorded from tokenize_program        *)
(* (implementation -> specification, C05).  The trace holds, per text, one *)
(* `reset` event, one event per lexeme (token, lexical error, or the       *)
(* synthetic terminator inserted after END_IF) and one `end` event.  Slice *)
(* facts (number of LF in the lexeme, length of its last line in bytes /   *)
(* scalar values / UTF-16 units, whether both ends are on character        *)
(* boundaries, whether the token text equals the source slice) are         *)
(* computed by the driver from the source text, independently of the       *)
(* lexer.  The position machine is Lexer.tla's Advance rule expressed on   *)
(* those facts.  An event that is not an enabled step of the machine       *)
(* rejects the text it belongs to (recorded in `bad`); validation resumes  *)
(* at the next `reset` so that one rejection does not hide the others.     *)
(***************************************************************************)
EXTENDS Integers, Sequences, TLC, Json, IOUtils

Rec == ndJsonDeserialize(IOEnv.TRACE)

VARIABLES l,                  \* index of the next trace record
          tid,                \* id of the current text
          len,                \* byte length of the current text
          pos, line, colB, colC, colU,
          bad                 \* rejected texts: <<tid, index of the first unmatched record>>
vars == <<l, tid, len, pos, line, colB, colC, colU, bad>>

Init == l = 1 /\ tid = -1 /\ len = 0 /\ pos = 0 /\ line = 0 /\ colB = 0 /\ colC = 0 /\ colU = 0 /\ bad = <<>>

Cols == {colB, colC, colU}

Guard(r) ==
  CASE r.ev = "reset"  -> TRUE
    [] r.ev = "tok"    -> /\ r.s = pos                  \* contiguous and ordered
                          /\ r.e > r.s /\ r.e <= len
                          /\ r.bd                       \* on character boundaries
                          /\ r.eq                       \* token text = source slice
                          /\ r.l = line /\ r.c \in Cols \* line / column of the span start
    [] r.ev = "lexerr" -> r.s = pos /\ r.e > r.s /\ r.e <= len /\ r.bd
    [] r.ev = "synth"  -> r.s = pos /\ r.l = line /\ r.c \in Cols
    [] r.ev = "end"    -> pos = len                     \* the lexemes cover the whole text
    [] OTHER           -> FALSE

\* Lexer!Advance on slice facts
Apply(r) ==
  CASE r.ev = "reset" -> /\ tid' = r.tid /\ len' = r.len
                         /\ pos' = 0 /\ line' = 0 /\ colB' = 0 /\ colC' = 0 /\ colU' = 0
    [] r.ev \in {"tok", "lexerr"} ->
                         /\ pos'  = r.e
                         /\ line' = line + r.nl
                         /\ colB' = IF r.nl > 0 THEN r.tb ELSE colB + r.tb
                         /\ colC' = IF r.nl > 0 THEN r.tc ELSE colC + r.tc
                         /\ colU' = IF r.nl > 0 THEN r.tu ELSE colU + r.tu
                         /\ UNCHANGED <<tid, len>>
    [] OTHER          -> UNCHANGED <<tid, len, pos, line, colB, colC, colU>>

RECURSIVE NextReset(_)
NextReset(j) == IF j > Len(Rec) THEN j ELSE IF Rec[j].ev = "reset" THEN j ELSE NextReset(j + 1)

Step == /\ l <= Len(Rec)
        /\ LET r == Rec[l]
           IN  IF Guard(r)
               THEN /\ Apply(r) /\ l' = l + 1 /\ UNCHANGED bad
               ELSE /\ bad' = Append(bad, <<tid, l>>)
                    /\ l' = NextReset(l + 1)
                    /\ UNCHANGED <<tid, len, pos, line, colB, colC, colU>>

Spec == Init /\ [][Step]_vars

Verdict == l > Len(Rec) => PrintT(<<"TRACE-VERDICT", Len(Rec), bad>>)
=============================================================================
