SPECIFICATION Spec
CONSTANTS
  Chars = {"a", "e", "u", "s", "n"}
  MaxLen = 2
  Inserts = {"-", "a", "e", "s", "n", "ea", "sn", "na"}
  Emit = TRUE
INVARIANTS PositionsDistinct PositionIsOneBoundary Untouched EmitReplay
CHECK_DEADLOCK FALSE
