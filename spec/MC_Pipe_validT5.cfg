SPECIFICATION Spec
CONSTANTS
  N = 5
  Name <- ScName
  Deps <- ScDeps
  Fault <- ScFault
  MaxFiles = 3
  Arrange = "all"
  Deviations = {}
  Emit = TRUE
INVARIANTS TypeOK NoMasking OrderIndependent NothingLostBySort EmitReplay
CHECK_DEADLOCK FALSE
