SPECIFICATION Spec
CONSTANTS
  NUri = 1
  NText = 3
  MaxHist = 4
  Kinds = {"open", "change1"}
  Emit = TRUE
  Deviations = {}
INVARIANTS CacheCoherent DocsFollowProtocol PublishesMatchNotifications AnswerExactlyOnce NoPendingAtRest Survives EmitReplay
PROPERTIES PublishExactlyOnce
CHECK_DEADLOCK FALSE
