SPECIFICATION Spec
CONSTANTS
  Start = "lib_fb"
  Fuel = 4
  Quarantine = {}
  Only = {}
  Offsets = {0}
  Allow = {"pou:block", "in:redge", "block:more"}
  Emit = TRUE
INVARIANTS OneValue NothingDropped Terminates PrecedenceShape EmitReplay
CHECK_DEADLOCK FALSE
