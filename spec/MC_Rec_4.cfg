SPECIFICATION Spec
CONSTANTS
  NNodes = 4
  Emit = TRUE
  RandomGraphs = 0
  EdgeCounts = {}
  Shapes = {}
  SliceK = 0
  SliceM = 1
INVARIANTS TwoDefinitionsAgree EmitReplay
CHECK_DEADLOCK FALSE
