SPECIFICATION Spec
CONSTANTS
  NUri = 2
  NText = 2
  MaxHist = 4
  Kinds = {"open", "change1", "close", "semtok", "ws"}
  Emit = TRUE
  Deviations = {}
INVARIANTS CacheCoherent DocsFollowProtocol PublishesMatchNotifications AnswerExactlyOnce NoPendingAtRest NeverAnswerNotification Survives EmitReplay
PROPERTIES PublishExactlyOnce
CHECK_DEADLOCK FALSE
