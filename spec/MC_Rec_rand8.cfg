SPECIFICATION Spec
CONSTANTS
  NNodes = 8
  Emit = TRUE
  RandomGraphs = 40
  EdgeCounts = {3, 5, 7, 9, 12}
  Shapes = {}
  SliceK = 0
  SliceM = 1
INVARIANTS EmitReplay
CHECK_DEADLOCK FALSE
