SPECIFICATION Spec
CONSTANTS
  MaxEdits = 1
  EditKinds = {"grow", "plant"}
  Emit = TRUE
  Shape = "full"
INVARIANTS BaseValid GrowPreservesValid PlantSound SingleFaultIsSingle EmitReplay
CHECK_DEADLOCK FALSE
