SPECIFICATION Spec
CONSTANTS
  NNodes = 12
  Emit = TRUE
  RandomGraphs = 40
  EdgeCounts = {4, 8, 11, 14, 18, 24}
  Shapes = {}
  SliceK = 0
  SliceM = 1
INVARIANTS EmitReplay
CHECK_DEADLOCK FALSE
