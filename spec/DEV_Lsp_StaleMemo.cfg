SPECIFICATION Spec
CONSTANTS
  NUri = 2
  NText = 6
  MaxHist = 3
  Kinds = {"open", "change1"}
  Emit = FALSE
  Deviations = {"StaleMemo"}
INVARIANTS CacheCoherent DocsFollowProtocol PublishesMatchNotifications AnswerExactlyOnce NoPendingAtRest NeverAnswerNotification Survives
PROPERTIES PublishExactlyOnce
CHECK_DEADLOCK FALSE
