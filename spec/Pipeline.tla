------------------------------ MODULE Pipeline ------------------------------
(***************************************************************************)
(* Analysing a SET OF FILES  (compiler/plc2x/src/project.rs semantic(),    *)
(* compiler/analyzer/src/stages.rs):  C03 no error is masked, C06 the      *)
(* result does not depend on declaration order, partition into files,      *)
(* file order or run.                                                      *)
(*                                                                         *)
(* A scenario is a constant: declarations 1..N, each with a Name, the      *)
(* declarations it needs (Deps, by name) and a Fault class.  The state is  *)
(* an ARRANGEMENT of the declarations - a sequence of files, each a        *)
(* sequence of declarations (every permutation, every partition, every     *)
(* file order: this is also how the randomly seeded map of sources is      *)
(* modelled) - and the progress of the pipeline over it.  One action per   *)
(* critical section of the code.                                           *)
(*                                                                         *)
(* Deviations of an implementation are NAMED actions, disabled unless      *)
(* listed in the constant Deviations; with one enabled TLC produces the    *)
(* counterexample that explains the corresponding finding.                 *)
(***************************************************************************)
EXTENDS Naturals, Sequences, FiniteSets, TLC, Json

CONSTANTS N,            \* declarations are 1..N
          Name,         \* [1..N -> STRING]          two declarations may have the same name
          Deps,         \* [1..N -> SUBSET STRING]   names this declaration refers to
          Fault,        \* [1..N -> fault class]     "none" | "lex" | "syn" | "rule" (context-free rule violation)
          SortDeps,     \* [1..N -> SUBSET STRING]   the part of Deps the topological sort is documented to honour: a type alias
                        \*                           comes after the type it renames (other references are looked up by name later)
          Space,        \* [1..N -> name space]      "data" (data type) | "fb" (function block: a type as well) | "pou" (function,
                        \*                           program, configuration: not types - 'TYPE FN' and 'FUNCTION FN' may coexist)
          MaxFiles,
          Arrange,      \* "all": every arrangement;  "identity": the declarations in scenario order, one file
                        \* (scenarios with more than 5 declarations: their arrangements are sampled by the driver)
          Deviations,
          Emit

VARIABLES files,        \* the arrangement: Seq(Seq(1..N))
          stage,        \* "start" | "parsed" | "concat" | "sorted" | "resolved" | "done"
          lib,          \* declarations seen by the current stage, in order
          diags,        \* set of <<code, declaration>> reported so far
          verdict       \* "-" | "Ok" | "Err"
vars == <<files, stage, lib, diags, verdict>>

Decls == 1..N
Range(s) == {s[i] : i \in 1..Len(s)}

---------------------------------------------------------------------------
(* all arrangements: an ordered partition of a permutation *)
Perms == {p \in [1..N -> Decls] : \A i, j \in 1..N : i # j => p[i] # p[j]}
\* cut positions: a strictly increasing sequence of k-1 cut points splits a permutation into k non-empty files
CutSets == {c \in SUBSET (1..(N - 1)) : Cardinality(c) < MaxFiles}
RECURSIVE Split(_, _, _)
Split(p, from, cuts) ==
  IF cuts = {} THEN <<SubSeq(p, from, Len(p))>>
  ELSE LET c == CHOOSE x \in cuts : \A y \in cuts : x <= y
       IN  <<SubSeq(p, from, c)>> \o Split(p, c + 1, cuts \ {c})
Arrangements == IF Arrange = "identity" THEN {<<[i \in 1..N |-> i]>>} ELSE {Split(p, 1, c) : p \in Perms, c \in CutSets}

Flat(fs) == IF fs = <<>> THEN <<>> ELSE LET F[i \in 0..Len(fs)] == IF i = 0 THEN <<>> ELSE F[i - 1] \o fs[i] IN F[Len(fs)]

---------------------------------------------------------------------------
(* What the SET of declarations means - independent of any arrangement *)
Names == {Name[d] : d \in Decls}
IsType(d) == Space[d] \in {"data", "fb"}
SameSpace(a, b) == IsType(a) = IsType(b)
Clash(a, b) == a # b /\ Name[a] = Name[b] /\ SameSpace(a, b)
DuplicateName == \E a, b \in Decls : Clash(a, b)
ParseFails(d) == Fault[d] \in {"lex", "syn"}
Undeclared(S) == {d \in S : \E n \in Deps[d] : n \notin {Name[e] : e \in S}}     \* refers to a name no declaration of S has
\* cyclic dependency among the names of S
RECURSIVE Reach(_, _, _)
Reach(S, frontier, seen) ==
  IF frontier = {} THEN seen
  ELSE LET next == UNION {Deps[d] : d \in {e \in S : Name[e] \in frontier}} \ seen
       IN  Reach(S, next, seen \cup next)
Cyclic(S) == \E d \in S : Name[d] \in Reach(S, Deps[d], Deps[d])

\* the verdict of a whole set: function of the SET only
SetFails(S) == \/ \E d \in S : Fault[d] # "none"
               \/ \E a, b \in S : Clash(a, b)
               \/ Undeclared(S) # {}
               \/ Cyclic(S)
ExpectedVerdict == IF SetFails(Decls) THEN "Err" ELSE "Ok"

---------------------------------------------------------------------------
(* The pipeline, one action per critical section *)
FileParses(f) == \A d \in Range(f) : ~ParseFails(d)
ParsedFiles == SelectSeq(files, FileParses)

\* project.rs semantic(): every source is parsed (memoised); parse diagnostics are collected
ParseAll ==
  /\ stage = "start"
  /\ diags' = {<<IF Fault[d] = "lex" THEN "P0031" ELSE "P0002", d>> : d \in {e \in Decls : ParseFails(e)}}
  /\ stage' = "parsed"
  /\ UNCHANGED <<files, lib, verdict>>

\* stages.rs resolve_types(): the libraries of the files that parsed are concatenated in map order
Concat ==
  /\ stage = "parsed"
  /\ lib' = Flat(ParsedFiles)
  /\ stage' = "concat"
  /\ UNCHANGED <<files, diags, verdict>>

\* xform_toposort_declarations: a cycle is P0010; otherwise ANY dependencies-first order of the same declarations
IsTopo(s) == \A i, j \in 1..Len(s) : (Name[s[j]] \in Deps[s[i]] /\ Name[s[j]] # Name[s[i]]) => j < i
SameDecls(s, t) == Len(s) = Len(t) /\ Range(s) = Range(t)
Toposort ==
  /\ stage = "concat"
  /\ IF lib = <<>> THEN /\ diags' = diags \cup {<<"P0030", 0>>} /\ stage' = "done" /\ verdict' = "Err" /\ UNCHANGED lib
     ELSE IF Cyclic(Range(lib)) THEN /\ diags' = diags \cup {<<"P0010", 0>>} /\ stage' = "done" /\ verdict' = "Err" /\ UNCHANGED lib
     ELSE /\ \E s \in (IF Len(lib) > 5 THEN {lib}      \* large scenarios: the choice of order is not enumerated
                      ELSE {t \in [1..Len(lib) -> Range(lib)] : SameDecls(t, lib) /\ (Undeclared(Range(lib)) = {} => IsTopo(t))}) :
               lib' = IF "CollapseEqualNames" \in Deviations
                         THEN SelectSeq(s, LAMBDA d : \A e \in Range(s) : (Name[e] = Name[d]) => d <= e)   \* deviation: one declaration per name survives
                         ELSE s
          /\ stage' = "sorted" /\ UNCHANGED <<diags, verdict>>
  /\ UNCHANGED files

\* the resolve transforms: duplicate names (P0019 / P0020) and unknown names (P0022 ...) abort the pipeline
Resolve ==
  /\ stage = "sorted"
  /\ LET S == Range(lib)
         dup == {d \in S : \E e \in S : Clash(d, e)}
         und == Undeclared(S)
     IN  IF dup # {} \/ und # {}
            THEN /\ diags' = diags \cup {<<"P0019", d>> : d \in dup} \cup {<<"P0022", d>> : d \in und}
                 /\ stage' = "done" /\ verdict' = "Err"
            ELSE /\ stage' = "resolved" /\ UNCHANGED <<diags, verdict>>
  /\ UNCHANGED <<files, lib>>

\* semantic(): every rule runs on every declaration; diagnostics accumulate.  Then the verdict is formed
Rules ==
  /\ stage = "resolved"
  /\ LET rd == {<<"RULE", d>> : d \in {e \in Range(lib) : Fault[e] = "rule"}}
         all == diags \cup rd
     IN  /\ diags' = all
         /\ verdict' = IF rd # {} THEN "Err"
                       ELSE IF all = {} THEN "Ok"
                       ELSE IF "DropParseDiagsWhenAnalysisOk" \in Deviations THEN "Ok"    \* deviation: parse diagnostics forgotten
                       ELSE "Err"
  /\ stage' = "done"
  /\ UNCHANGED <<files, lib>>

Init == /\ files \in Arrangements
        /\ stage = "start" /\ lib = <<>> /\ diags = {} /\ verdict = "-"
Next == ParseAll \/ Concat \/ Toposort \/ Resolve \/ Rules
Spec == Init /\ [][Next]_vars

---------------------------------------------------------------------------
Done == stage = "done"
\* an analysis that aborted early still ends in Err
TypeOK == /\ stage \in {"start", "parsed", "concat", "sorted", "resolved", "done"}
          /\ (Done => verdict \in {"Ok", "Err"})

(* C03: whatever accompanies it, a file that does not parse, a declaration that violates a context-free rule,
   or two declarations with one name make the verdict Err *)
NoMasking == Done => ( ( \/ \E d \in Decls : Fault[d] # "none"
                          \/ DuplicateName ) => verdict = "Err" )
(* C06: the verdict is a function of the set of declarations (so: not of the arrangement, nor of the
   topological order chosen, nor of the run) *)
OrderIndependent == Done => verdict = ExpectedVerdict
\* every declaration of a file that parsed is analysed: cross-file visibility
NothingLostBySort == stage = "sorted" => ("CollapseEqualNames" \in Deviations \/ SameDecls(lib, Flat(ParsedFiles)))

Replay == [R |-> "arr", files |-> files, verdict |-> verdict, expected |-> ExpectedVerdict,
           codes |-> {d[1] : d \in diags}]
EmitReplay == (Emit /\ Done) => PrintT(ToJson(Replay))
=============================================================================
