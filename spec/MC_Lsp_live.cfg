SPECIFICATION FairSpec
CONSTANTS
  NUri = 1
  NText = 2
  MaxHist = 3
  Kinds = {"open", "change0", "change1", "change2", "open_nf", "semtok", "unkreq", "unknotif", "cresp", "close", "badreq", "badnotif", "shutdown", "early"}
  Emit = FALSE
  Deviations = {}
INVARIANTS CacheCoherent DocsFollowProtocol AnswerExactlyOnce NoPendingAtRest Survives
PROPERTIES PublishExactlyOnce EventuallyAnswered
CHECK_DEADLOCK FALSE
