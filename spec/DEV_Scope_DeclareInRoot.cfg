SPECIFICATION Spec
CONSTANTS
  Names = {"a", "b"}
  MaxDepth = 3
  MaxOps = 7
  Deviations = {"DeclareInRoot"}
INVARIANTS SiblingsIsolated
CHECK_DEADLOCK FALSE
