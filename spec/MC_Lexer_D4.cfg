SPECIFICATION Spec
CONSTANTS
  Alphabet = {"COL","EQ","LT","GT","ST","DOT","AMP","L","SEMI"}
  MaxLen = 4
  Prefix = "none"
  Emit = TRUE
INVARIANTS TypeOK NoTie Tiling LineColDecl Total CodecRoundTrip SemTokOrdered EmitReplay
CHECK_DEADLOCK FALSE
