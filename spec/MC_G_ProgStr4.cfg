SPECIFICATION Spec
CONSTANTS
  Start = "lib_prog"
  Fuel = 4
  Quarantine = {}
  Only = {}
  Offsets = {0}
  Allow = {"pou:block", "vspec:string", "vspec:wstring", "vspecio:string", "vspecio:wstring", "string:len", "string:init", "q:retain", "q:constant", "block:more"}
  Emit = TRUE
INVARIANTS OneValue NothingDropped Terminates PrecedenceShape EmitReplay
CHECK_DEADLOCK FALSE
