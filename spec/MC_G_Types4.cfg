SPECIFICATION Spec
CONSTANTS
  Start = "lib_types"
  Fuel = 4
  Quarantine = {}
  Only = {}
  Offsets = {0}
  Allow = {}
  Emit = TRUE
INVARIANTS OneValue NothingDropped Terminates PrecedenceShape EmitReplay
CHECK_DEADLOCK FALSE
