SPECIFICATION Spec
CONSTANTS
  Alphabet = {"Q1","Q2","L","X2","X3","X4","LF","BAD","FF"}
  MaxLen = 5
  Prefix = "none"
  Emit = TRUE
INVARIANTS TypeOK NoTie Tiling LineColDecl Total CodecRoundTrip SemTokOrdered EmitReplay
CHECK_DEADLOCK FALSE
