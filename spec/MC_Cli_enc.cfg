SPECIFICATION Spec
CONSTANTS
  DirOf <- EncDirOf
  ClassOf <- EncClassOf
  Provider <- EncProvider
  DirNames = {"dA"}
  BadDirs = {}
  MaxArgs = 1
  Commands = {"check", "tokenize"}
  Encodings = {"utf8", "utf8bom", "utf16le", "utf16be", "cp1252"}
  Verbosities = {0}
  Emit = TRUE
INVARIANTS ExitOkDiagAgree EchoTokenizeExit EncodingTransparent EmitReplay
CHECK_DEADLOCK FALSE
