-------------------------------- MODULE Unit --------------------------------
(***************************************************************************)
(* Abstract compilation units and the documented semantic rules of the     *)
(* analyzer (C02; used by C03, C05, C06).                                  *)
(*                                                                         *)
(* A unit is a record of type declarations, program organisation units     *)
(* (variables + statements) and one configuration.  Every documented rule  *)
(* is a predicate over units, written from the rule's description (the     *)
(* "Passes" / "Fails" text of each rule and the problem code list), never  *)
(* from the code:  Violated(u) is the set of rules u breaks.               *)
(*                                                                         *)
(* The machine starts from a valid base unit and applies up to MaxEdits    *)
(* edits.  An edit either GROWS the unit (adds a declaration, variable or  *)
(* statement, moves a statement into a control structure, ...) keeping it  *)
(* valid, or PLANTS the documented "Fails" shape of one rule at one site.  *)
(* Expectations are computed by evaluating the rule predicates on the      *)
(* resulting unit, never assumed from the edit.                            *)
(***************************************************************************)
EXTENDS Naturals, Integers, Sequences, FiniteSets, TLC, Json

CONSTANTS MaxEdits, EditKinds, Emit,
          Shape      \* "full": any sequence of edits;  "gp": the behaviours <<>>, <<g>>, <<p>>, <<g, p>>  (g growth, p planted fault)

VARIABLES unit, edits
vars == <<unit, edits>>

Elementary == {"INT", "BOOL", "REAL", "TIME", "DINT"}
UnsupportedStd == {"TON", "TOF", "CTU", "R_TRIG"}

---------------------------------------------------------------------------
(* Vocabulary.
   type decl : [n, k, ...]   k = "enum"   vals, def
                             k = "alias"  base, def          (enumeration alias  T : BASE := def)
                             k = "struct" elems : Seq([n, ty, init])
                             k = "subrange" lo, hi            (T : INT (lo..hi))
                             k = "array"  lo, hi
   var       : [n, cls, q, ty, init]     init = <<"-">> | <<"int", digits>> | <<"bool", v>> | <<"enum", value>>
   stmt      : [k = "assign", wrap, tgt, src]      src = <<"var", n>> | <<"int", d>> | <<"enumv", v>> | <<"sum", n, m>> | <<"fcall", f, n>>
                                                          | <<"field", n, elem>>  (n.elem)  | <<"index", arr, n>>  (arr[n])
                                                          | <<"nested", n, m>>  ((n + (m * 2)) - 1)  | <<"neg", n>>  (- n)
               [k = "call", wrap, inst, named : Seq(<<formal, actual>>), pos : Seq(actual), outs : Seq(<<formal, target>>)]
               wrap = <<"-">> or <<kind, name used in the control expression>>, kind in if elsif else case for while repeat
   pou       : [n, k = "fb" | "prog" | "func", vars, body]
   config    : [n, globals : Seq(var), rglobals : Seq(var), tasks : Seq(name), progs : Seq([n, task, ty])]        *)

V(n, cls, q, ty, init) == [n |-> n, cls |-> cls, q |-> q, ty |-> ty, init |-> init]
NoInit == <<"-">>
A(wrap, tgt, src) == [k |-> "assign", wrap |-> wrap, tgt |-> tgt, src |-> src]
C(wrap, inst, named, pos, outs) == [k |-> "call", wrap |-> wrap, inst |-> inst, named |-> named, pos |-> pos, outs |-> outs]
NoWrap == <<"-">>

Base == [
  \* useq: enumeration values used as initial values (variables, structure elements, defaults) are written with
  \* their type prefix (lev : LEVEL := LEVEL#LOW) - the same value either way
  useq |-> FALSE,
  \* sfc: the POUs (function blocks, programs) whose body is a sequential function chart: the statements are the body of
  \* an ACTION, tcond[name] is the variable in the condition of a TRANSITION ("-": the condition is TRUE)
  sfc |-> {}, tcond |-> [n \in {"CALLEE", "CALLER", "MAIN", "EXTRA"} |-> "-"],
  \* useqalias: ... the initial values of variables and structure elements with the prefix of an ALIAS of their
  \* enumeration (lev : LEVEL := LEVEL2#LOW) - still the same value
  useqalias |-> FALSE,
  types |-> <<
    \* qual: the positions of the value list that are written with the type prefix (LEVEL#LOW) - the same value either way
    [n |-> "LEVEL", k |-> "enum", vals |-> <<"LOW", "MID", "HIGH">>, def |-> "LOW", qual |-> {}],
    [n |-> "LEVEL2", k |-> "alias", base |-> "LEVEL", def |-> "MID"],
    [n |-> "PT", k |-> "struct", elems |-> << [n |-> "x", ty |-> "INT", init |-> NoInit], [n |-> "y", ty |-> "BOOL", init |-> NoInit],
                                               [n |-> "lv", ty |-> "LEVEL", init |-> <<"enum", "HIGH">>] >>],
    [n |-> "RNG", k |-> "subrange", lo |-> 1, hi |-> 10],
    [n |-> "ARR", k |-> "array", lo |-> 1, hi |-> 4] >>,
  pous |-> <<
    [n |-> "CALLEE", k |-> "fb",
     vars |-> << V("in1", "VAR_INPUT", "-", "INT", NoInit), V("in2", "VAR_INPUT", "-", "BOOL", NoInit),
                 V("out1", "VAR_OUTPUT", "-", "INT", NoInit), V("tmp", "VAR", "-", "INT", NoInit) >>,
     body |-> << A(NoWrap, "tmp", <<"var", "in1">>), A(NoWrap, "out1", <<"var", "tmp">>) >>],
    [n |-> "CALLER", k |-> "fb",
     vars |-> << V("go", "VAR_INPUT", "-", "BOOL", NoInit), V("inst", "VAR", "-", "CALLEE", NoInit), V("a", "VAR", "-", "INT", NoInit),
                 V("b", "VAR", "-", "INT", NoInit), V("flag", "VAR", "-", "BOOL", NoInit), V("lev", "VAR", "-", "LEVEL", <<"enum", "LOW">>),
                 V("lev2", "VAR", "-", "LEVEL2", <<"enum", "HIGH">>), V("p", "VAR", "-", "PT", NoInit),
                 V("k", "VAR", "CONSTANT", "INT", <<"int", "5">>), V("arr", "VAR", "-", "ARR", NoInit) >>,
     body |-> << A(NoWrap, "a", <<"var", "b">>),
                 C(NoWrap, "inst", << <<"in1", "a">>, <<"in2", "flag">> >>, <<>>, << <<"out1", "b">> >>),
                 A(NoWrap, "lev", <<"enumv", "MID">>),
                 A(<<"if", "flag">>, "a", <<"var", "k">>) >>],
    [n |-> "FN", k |-> "func",
     vars |-> << V("fa", "VAR_INPUT", "-", "INT", NoInit) >>,
     body |-> << A(NoWrap, "FN", <<"var", "fa">>) >>],
    [n |-> "MAIN", k |-> "prog",
     vars |-> << V("gk", "VAR_EXTERNAL", "CONSTANT", "INT", NoInit), V("gv", "VAR_EXTERNAL", "-", "INT", NoInit),
                 V("c1", "VAR", "-", "CALLER", NoInit), V("n", "VAR", "-", "INT", NoInit) >>,
     body |-> << A(NoWrap, "n", <<"var", "gv">>), C(NoWrap, "c1", << <<"go", "TRUE">> >>, <<>>, <<>>),
                 A(NoWrap, "n", <<"fcall", "FN", "n">>) >>] >>,
  config |-> [n |-> "CFG",
              globals |-> << V("gk", "VAR_GLOBAL", "CONSTANT", "INT", <<"int", "17">>) >>,
              rglobals |-> << V("gv", "VAR_GLOBAL", "-", "INT", <<"int", "1">>) >>,
              tasks |-> <<"T1">>,
              progs |-> << [n |-> "I1", task |-> "T1", ty |-> "MAIN"], [n |-> "I2", task |-> "-", ty |-> "MAIN"] >>],
  \* a second configuration (absent in the base unit: n = "-"); tasks are local to the resource of their configuration
  config2 |-> [n |-> "-", globals |-> <<>>, rglobals |-> <<>>, tasks |-> <<>>, progs |-> <<>>]
]

---------------------------------------------------------------------------
(* Derived notions *)
Range(s) == {s[i] : i \in 1..Len(s)}
TypeNames(u) == {u.types[i].n : i \in 1..Len(u.types)}
TypeOf(u, name) == CHOOSE t \in Range(u.types) : t.n = name
FBs(u) == {p \in Range(u.pous) : p.k = "fb"}
FBNames(u) == {p.n : p \in FBs(u)}
FBOf(u, name) == CHOOSE p \in FBs(u) : p.n = name
FuncNames(u) == {p.n : p \in {q \in Range(u.pous) : q.k = "func"}}
VarsOf(p) == Range(p.vars)
VarNames(p) == {v.n : v \in VarsOf(p)}
Inputs(p) == {v.n : v \in {w \in VarsOf(p) : w.cls = "VAR_INPUT"}}
Outputs(p) == {v.n : v \in {w \in VarsOf(p) : w.cls = "VAR_OUTPUT"}}
InOuts(p) == {v.n : v \in {w \in VarsOf(p) : w.cls = "VAR_IN_OUT"}}
\* what may stand left of := in a formal invocation: inputs and in-out variables (an in-out variable is bound with :=, never with =>)
NamedFormals(p) == Inputs(p) \cup InOuts(p)
Globals(u) == Range(u.config.globals) \cup Range(u.config.rglobals) \cup Range(u.config2.globals) \cup Range(u.config2.rglobals)
AllVars(u) == UNION {VarsOf(p) : p \in Range(u.pous)} \cup Globals(u)
Literals == {"TRUE", "FALSE"}

\* the enumeration a type name denotes, through aliases; <<>> if it denotes none (cycle-free by MaxDepth)
RECURSIVE EnumValues(_, _, _)
EnumValues(u, name, fuel) ==
  IF fuel = 0 \/ name \notin TypeNames(u) THEN {}
  ELSE LET t == TypeOf(u, name)
       IN  IF t.k = "enum" THEN Range(t.vals) ELSE IF t.k = "alias" THEN EnumValues(u, t.base, fuel - 1) ELSE {}
ValuesOf(u, name) == EnumValues(u, name, 6)
AllEnumValues(u) == UNION {Range(t.vals) : t \in {x \in Range(u.types) : x.k = "enum"}}

\* names a statement uses as variables (roles), and the function / instance names it refers to
SrcVars(src) == CASE src[1] = "var" -> {src[2]} [] src[1] = "sum" -> {src[2], src[3]} [] src[1] = "fcall" -> {src[3]}
                  [] src[1] = "field" -> {src[2]} [] src[1] = "index" -> {src[2], src[3]}
                  [] src[1] = "nested" -> {src[2], src[3]} [] src[1] = "neg" -> {src[2]} [] OTHER -> {}
\* FOR loops also use a variable in their FROM, TO and BY expressions: <<"forfrom" | "forto" | "forby", that variable, the control variable>>
ForParts == {"forfrom", "forto", "forby"}
WrapVars(w) == IF w[1] \in {"-", "else"} THEN {} ELSE IF w[1] \in ForParts THEN {w[2], w[3]} ELSE {w[2]}
MkWrap(kind, x) == IF kind \in ForParts THEN <<kind, x, x>> ELSE <<kind, x>>
StmtVars(s) == WrapVars(s.wrap)
               \cup (IF s.k = "assign" THEN {s.tgt} \cup SrcVars(s.src)
                     ELSE ({s.named[i][2] : i \in 1..Len(s.named)} \cup Range(s.pos) \cup {s.outs[i][2] : i \in 1..Len(s.outs)}) \ Literals)
StmtEnumValues(s) == IF s.k = "assign" /\ s.src[1] = "enumv" THEN {s.src[2]} ELSE {}
Calls(p) == {s \in Range(p.body) : s.k = "call"}

---------------------------------------------------------------------------
(* The documented rules.  Each is TRUE when the unit satisfies the rule. *)
Distinct(s) == \A i, j \in 1..Len(s) : i # j => s[i] # s[j]

\* P0003  element names of a structure are unique
StructElemUnique(u) == \A t \in Range(u.types) : t.k = "struct" => Distinct([i \in 1..Len(t.elems) |-> t.elems[i].n])
\* P0004  subrange minimum strictly below maximum
SubrangeOrdered(u) == \A t \in Range(u.types) : t.k = "subrange" => t.lo < t.hi
\* P0005  values of an enumeration declaration are unique
EnumValuesUnique(u) == \A t \in Range(u.types) : t.k = "enum" => Distinct(t.vals)
\* P0015  every variable a POU uses is declared in that POU (a function may assign its own name)
VarDeclared(u) == /\ \A p \in Range(u.pous) : \A s \in Range(p.body) :
                        StmtVars(s) \subseteq VarNames(p) \cup (IF p.k = "func" THEN {p.n} ELSE {})
                  \* ... and so is the variable in the condition of a transition of its chart
                  /\ \A p \in Range(u.pous) : (p.n \in u.sfc /\ u.tcond[p.n] # "-") => u.tcond[p.n] \in VarNames(p)
\* P0014  an enumeration value used as initial value (variable, structure element, alias default) belongs to the enumeration
EnumValueDeclared(u) ==
  /\ \A v \in AllVars(u) : (v.init[1] = "enum" /\ ValuesOf(u, v.ty) # {}) => v.init[2] \in ValuesOf(u, v.ty)
  /\ \A t \in Range(u.types) : t.k = "alias" /\ ValuesOf(u, t.base) # {} => t.def \in ValuesOf(u, t.base)
  /\ \A t \in Range(u.types) : t.k = "enum" => t.def \in Range(t.vals)
  /\ \A t \in Range(u.types) : t.k = "struct" =>
        \A i \in 1..Len(t.elems) : (t.elems[i].init[1] = "enum" /\ ValuesOf(u, t.elems[i].ty) # {}) => t.elems[i].init[2] \in ValuesOf(u, t.elems[i].ty)
\* enumeration values used in statements are values of some declared enumeration (or declared variables)
StmtEnumValueDeclared(u) == \A p \in Range(u.pous) : \A s \in Range(p.body) : StmtEnumValues(s) \subseteq AllEnumValues(u) \cup VarNames(p)
\* P0012 / P0022  every type a variable, structure element or alias refers to is declared
KnownTypes(u) == Elementary \cup TypeNames(u) \cup FBNames(u) \cup UnsupportedStd
TypeDeclared(u) ==
  /\ \A v \in AllVars(u) : v.ty \in KnownTypes(u)
  /\ \A t \in Range(u.types) : (t.k = "alias" => t.base \in TypeNames(u))
                               /\ (t.k = "struct" => \A i \in 1..Len(t.elems) : t.elems[i].ty \in KnownTypes(u))
\* P0029  standard function blocks the compiler does not implement are reported as such
StdlibSupported(u) == \A v \in AllVars(u) : v.ty \notin UnsupportedStd
\* P0021  an invoked instance is a variable of the POU whose type is a declared function block
FBInstanceDeclared(u) == \A p \in Range(u.pous) : \A s \in Calls(p) :
                            \E v \in VarsOf(p) : v.n = s.inst /\ v.ty \in FBNames(u)
Callee(u, p, s) == FBOf(u, (CHOOSE v \in VarsOf(p) : v.n = s.inst).ty)
HasCallee(u, p, s) == \E v \in VarsOf(p) : v.n = s.inst /\ v.ty \in FBNames(u)
\* P0006  an invocation does not mix formal and non-formal input arguments
InvocationNoMix(u) == \A p \in Range(u.pous) : \A s \in Calls(p) : s.named = <<>> \/ s.pos = <<>>
\* P0007  every formally assigned input is an input of the callee
InputsDeclared(u) == \A p \in Range(u.pous) : \A s \in Calls(p) : HasCallee(u, p, s) =>
                        \A i \in 1..Len(s.named) : s.named[i][1] \in NamedFormals(Callee(u, p, s))
\* P0008  a non-formal invocation supplies exactly the inputs of the callee
PositionalArity(u) == \A p \in Range(u.pous) : \A s \in Calls(p) : (HasCallee(u, p, s) /\ s.pos # <<>> /\ s.named = <<>>) =>
                        Len(s.pos) = Cardinality(Inputs(Callee(u, p, s)))
\* P0009  every assigned output is an output of the callee
OutputsDeclared(u) == \A p \in Range(u.pous) : \A s \in Calls(p) : HasCallee(u, p, s) =>
                        \A i \in 1..Len(s.outs) : s.outs[i][1] \in Outputs(Callee(u, p, s))
\* P0011  a task a program configuration is associated with is defined
TaskDefinedIn(c) == \A i \in 1..Len(c.progs) : c.progs[i].task = "-" \/ c.progs[i].task \in Range(c.tasks)
TaskDefined(u) == TaskDefinedIn(u.config) /\ TaskDefinedIn(u.config2)
\* P0016  a CONSTANT variable has an initial value (an external declaration refers to the global's value)
ConstInitialised(u) == \A v \in AllVars(u) : (v.q = "CONSTANT" /\ v.cls # "VAR_EXTERNAL" /\ v.ty \notin FBNames(u)) => v.init # NoInit
\* P0017  a function block instance is never CONSTANT
ConstNotFB(u) == \A v \in AllVars(u) : v.q = "CONSTANT" => v.ty \notin FBNames(u)
\* P0018  an external declaration of a constant global is itself declared CONSTANT
ExternOfConstIsConst(u) == \A p \in Range(u.pous) : \A v \in VarsOf(p) : v.cls = "VAR_EXTERNAL" =>
                              \A g \in Globals(u) : (g.n = v.n /\ g.q = "CONSTANT") => v.q = "CONSTANT"
\* P0019 / P0020  declaration names are unique (types and function blocks share one name space)
NamesUnique(u) == Distinct([i \in 1..Len(u.types) |-> u.types[i].n]
                           \o SelectSeq([i \in 1..Len(u.pous) |-> IF u.pous[i].k = "fb" THEN u.pous[i].n ELSE ""], LAMBDA x : x # ""))

Rules == {"StructElemUnique", "SubrangeOrdered", "EnumValuesUnique", "VarDeclared", "EnumValueDeclared", "StmtEnumValueDeclared",
          "TypeDeclared", "StdlibSupported", "FBInstanceDeclared", "InvocationNoMix", "InputsDeclared", "PositionalArity",
          "OutputsDeclared", "TaskDefined", "ConstInitialised", "ConstNotFB", "ExternOfConstIsConst", "NamesUnique"}
Holds(r, u) == CASE r = "StructElemUnique" -> StructElemUnique(u) [] r = "SubrangeOrdered" -> SubrangeOrdered(u)
                 [] r = "EnumValuesUnique" -> EnumValuesUnique(u) [] r = "VarDeclared" -> VarDeclared(u)
                 [] r = "EnumValueDeclared" -> EnumValueDeclared(u) [] r = "StmtEnumValueDeclared" -> StmtEnumValueDeclared(u)
                 [] r = "TypeDeclared" -> TypeDeclared(u) [] r = "StdlibSupported" -> StdlibSupported(u)
                 [] r = "FBInstanceDeclared" -> FBInstanceDeclared(u) [] r = "InvocationNoMix" -> InvocationNoMix(u)
                 [] r = "InputsDeclared" -> InputsDeclared(u) [] r = "PositionalArity" -> PositionalArity(u)
                 [] r = "OutputsDeclared" -> OutputsDeclared(u) [] r = "TaskDefined" -> TaskDefined(u)
                 [] r = "ConstInitialised" -> ConstInitialised(u) [] r = "ConstNotFB" -> ConstNotFB(u)
                 [] r = "ExternOfConstIsConst" -> ExternOfConstIsConst(u) [] r = "NamesUnique" -> NamesUnique(u)
Violated(u) == {r \in Rules : ~Holds(r, u)}
\* published problem code(s) of a rule (more than one: any of them)
Code(r) == CASE r = "StructElemUnique" -> {"P0003"} [] r = "SubrangeOrdered" -> {"P0004"} [] r = "EnumValuesUnique" -> {"P0005"}
             [] r = "VarDeclared" -> {"P0015"} [] r = "EnumValueDeclared" -> {"P0014"} [] r = "StmtEnumValueDeclared" -> {"P0014", "P0015"}
             [] r = "TypeDeclared" -> {"P0022", "P0012"} [] r = "StdlibSupported" -> {"P0029"} [] r = "FBInstanceDeclared" -> {"P0021"}
             [] r = "InvocationNoMix" -> {"P0006"} [] r = "InputsDeclared" -> {"P0007"} [] r = "PositionalArity" -> {"P0008"}
             [] r = "OutputsDeclared" -> {"P0009"} [] r = "TaskDefined" -> {"P0011"} [] r = "ConstInitialised" -> {"P0016"}
             [] r = "ConstNotFB" -> {"P0017"} [] r = "ExternOfConstIsConst" -> {"P0018"} [] r = "NamesUnique" -> {"P0019", "P0020"}

---------------------------------------------------------------------------
(* Edits.  PouIdx / StmtIdx / ... are the sites. *)
SetPou(u, i, p) == [u EXCEPT !.pous[i] = p]
AddVarTo(u, i, v) == SetPou(u, i, [u.pous[i] EXCEPT !.vars = Append(@, v)])
AddStmtTo(u, i, s) == SetPou(u, i, [u.pous[i] EXCEPT !.body = Append(@, s)])
SetStmt(u, i, j, s) == SetPou(u, i, [u.pous[i] EXCEPT !.body[j] = s])
SetVar(u, i, j, v) == SetPou(u, i, [u.pous[i] EXCEPT !.vars[j] = v])
PouIdx(u) == 1..Len(u.pous)
Wraps(ctl) == {<<"if", ctl>>, <<"elsif", ctl>>, <<"else", ctl>>, <<"case", ctl>>, <<"for", ctl>>, <<"while", ctl>>, <<"repeat", ctl>>,
               <<"forfrom", ctl>>, <<"forto", ctl>>, <<"forby", ctl>>}
IntVar(p) == CHOOSE v \in VarsOf(p) : v.ty = "INT" /\ v.q # "CONSTANT" /\ v.cls \in {"VAR", "VAR_OUTPUT", "VAR_INPUT"}
HasIntVar(p) == \E v \in VarsOf(p) : v.ty = "INT" /\ v.q # "CONSTANT" /\ v.cls \in {"VAR", "VAR_OUTPUT", "VAR_INPUT"}
\* the control variable of a wrapper must be declared; the base POUs all have an INT variable, used as condition / selector / counter
Edit(label, u2) == /\ unit' = u2 /\ edits' = Append(edits, label)

\* a new input would change the arity a non-formal invocation of this block must have
CanAddInput(i) == \A p \in Range(unit.pous) : \A s \in Calls(p) :
                     (s.pos # <<>> /\ HasCallee(unit, p, s)) => Callee(unit, p, s).n # unit.pous[i].n

(* --- growth: keeps a valid unit valid --- *)
GrowVar == \E i \in PouIdx(unit), cls \in {"VAR", "VAR_INPUT", "VAR_OUTPUT"}, ty \in {"INT", "BOOL", "LEVEL", "PT", "ARR"} :
             /\ ~(unit.pous[i].k = "func" /\ cls = "VAR_OUTPUT")
             /\ "nv" \notin VarNames(unit.pous[i])
             /\ (cls = "VAR_INPUT" => CanAddInput(i))
             /\ Edit(<<"grow:var", unit.pous[i].n, cls, ty>>,
                     AddVarTo(unit, i, V("nv", cls, "-", ty, IF ty = "LEVEL" THEN <<"enum", "HIGH">> ELSE NoInit)))
GrowConst == \E i \in PouIdx(unit) : "nk" \notin VarNames(unit.pous[i]) /\
             Edit(<<"grow:const", unit.pous[i].n>>, AddVarTo(unit, i, V("nk", "VAR", "CONSTANT", "INT", <<"int", "3">>)))
GrowStmt == \E i \in PouIdx(unit), w \in {NoWrap} \cup Wraps("") : HasIntVar(unit.pous[i]) /\
             LET x == IntVar(unit.pous[i]).n
                 ww == IF w = NoWrap THEN NoWrap ELSE MkWrap(w[1], x)
             IN  Edit(<<"grow:stmt", unit.pous[i].n, w[1]>>, AddStmtTo(unit, i, A(ww, x, <<"sum", x, x>>)))
GrowWrap == \E i \in PouIdx(unit), j \in 1..3, w \in Wraps("") :
             /\ j <= Len(unit.pous[i].body) /\ unit.pous[i].body[j].wrap = NoWrap /\ HasIntVar(unit.pous[i])
             /\ Edit(<<"grow:wrap", unit.pous[i].n, j, w[1]>>,
                     SetStmt(unit, i, j, [unit.pous[i].body[j] EXCEPT !.wrap = MkWrap(w[1], IntVar(unit.pous[i]).n)]))
\* the body of a function block / program becomes a sequential function chart (the statements move into an action; a
\* transition tests a declared variable) - the same statements, the same rules
GrowSfc == \E i \in PouIdx(unit) : unit.pous[i].k \in {"fb", "prog"} /\ unit.pous[i].n \notin unit.sfc /\ HasIntVar(unit.pous[i]) /\
             Edit(<<"grow:sfc", unit.pous[i].n>>, [unit EXCEPT !.sfc = @ \cup {unit.pous[i].n}, !.tcond[unit.pous[i].n] = IntVar(unit.pous[i]).n])
\* a structure element and an array element as the source of an assignment (CALLER has p : PT and arr : ARR)
GrowFieldIndex == \E src \in {<<"field", "p", "x">>, <<"index", "arr", "b">>} :
             Edit(<<"grow:" \o src[1]>>, AddStmtTo(unit, 2, A(NoWrap, "a", src)))
\* variables deep inside an expression: in nested parentheses, under a unary minus
GrowExpr == \E src \in {<<"nested", "a", "b">>, <<"neg", "b">>} :
             Edit(<<"grow:" \o src[1]>>, AddStmtTo(unit, 2, A(NoWrap, "a", src)))
GrowEnumValue == "TOP" \notin Range(unit.types[1].vals) /\ Edit(<<"grow:enumvalue">>, [unit EXCEPT !.types[1].vals = Append(@, "TOP")])
GrowStructElem == (\A i \in 1..Len(unit.types[3].elems) : unit.types[3].elems[i].n # "z") /\ Edit(<<"grow:structelem">>, [unit EXCEPT !.types[3].elems = Append(@, [n |-> "z", ty |-> "INT", init |-> NoInit])])
GrowType == "COLOR" \notin TypeNames(unit) /\ Edit(<<"grow:type">>, [unit EXCEPT !.types = Append(@, [n |-> "COLOR", k |-> "enum", vals |-> <<"RED", "GREEN">>, def |-> "RED", qual |-> {2}])])
\* uniqueness is per declaration: a second structure may use the element names of the first, a second enumeration a value
\* of the first
GrowStruct2 == "QT" \notin TypeNames(unit) /\
               Edit(<<"grow:struct2">>, [unit EXCEPT !.types = Append(@, [n |-> "QT", k |-> "struct",
                      elems |-> <<[n |-> "x", ty |-> "BOOL", init |-> NoInit], [n |-> "y", ty |-> "INT", init |-> NoInit]>>])])
GrowEnumShared == "SHADE" \notin TypeNames(unit) /\
               Edit(<<"grow:enumshared">>, [unit EXCEPT !.types = Append(@, [n |-> "SHADE", k |-> "enum", vals |-> <<"DARK", "MID">>, def |-> "DARK", qual |-> {}])])
\* an alias of an alias (two levels below the enumeration) with a variable of that type
GrowAlias2 == "LEVEL3" \notin TypeNames(unit) /\ "nl3" \notin VarNames(unit.pous[2]) /\
               Edit(<<"grow:alias2">>, AddVarTo([unit EXCEPT !.types = Append(@, [n |-> "LEVEL3", k |-> "alias", base |-> "LEVEL2", def |-> "HIGH"])],
                                                2, V("nl3", "VAR", "-", "LEVEL3", <<"enum", "LOW">>)))
GrowTask == "T2" \notin Range(unit.config.tasks) /\ Edit(<<"grow:task">>, [unit EXCEPT !.config.tasks = Append(@, "T2"),
                                               !.config.progs = Append(@, [n |-> "I3", task |-> "T2", ty |-> "MAIN"])])
\* a non-formal invocation supplies one actual per input of the callee
InputSeq(p) == SelectSeq(p.vars, LAMBDA v : v.cls = "VAR_INPUT")
GrowPositionalCall == Edit(<<"grow:positionalcall">>,
                           AddStmtTo(unit, 2, C(NoWrap, "inst", <<>>, [i \in 1..Len(InputSeq(unit.pous[1])) |-> "a"], <<>>)))
\* an in-out variable of CALLEE, bound by name in a further invocation in CALLER
GrowInOut == "io1" \notin VarNames(unit.pous[1]) /\
             Edit(<<"grow:inout">>, AddStmtTo(AddVarTo(unit, 1, V("io1", "VAR_IN_OUT", "-", "INT", NoInit)), 2,
                                              C(NoWrap, "inst", <<<<"io1", "a">>>>, <<>>, <<>>)))
GrowEmptyCall == Edit(<<"grow:emptycall">>, AddStmtTo(unit, 2, C(NoWrap, "inst", <<>>, <<>>, <<>>)))
GrowConfig2 == unit.config2.n = "-" /\
               \* ... with a global gk of its own that is NOT constant (the gk of CFG is): an external declaration of gk still
               \* has to be constant, whichever configuration is looked at first
               Edit(<<"grow:config2">>, [unit EXCEPT !.config2 = [n |-> "CFG2", globals |-> <<V("gk", "VAR_GLOBAL", "-", "INT", <<"int", "2">>)>>, rglobals |-> <<>>, tasks |-> <<"T9">>,
                                                                  progs |-> <<[n |-> "J1", task |-> "T9", ty |-> "MAIN"]>>]])
\* a data type that has the name of a standard function block the compiler does not implement: declaring it is fine
GrowStdNamedType == "TON" \notin TypeNames(unit) /\
               Edit(<<"grow:stdnamedtype">>, [unit EXCEPT !.types = Append(@, [n |-> "TON", k |-> "struct",
                                                                              elems |-> <<[n |-> "q", ty |-> "INT", init |-> NoInit]>>])])
GrowGlobal == (\A g \in Globals(unit) : g.n # "gw") /\ (\A i \in 1..Len(unit.config.rglobals) : unit.config.rglobals[i].q = "-") /\ Edit(<<"grow:global">>, [unit EXCEPT !.config.rglobals = Append(@, V("gw", "VAR_GLOBAL", "-", "BOOL", NoInit))])
GrowPou == (\A p \in Range(unit.pous) : p.n # "EXTRA") /\ Edit(<<"grow:pou">>, [unit EXCEPT !.pous = Append(@, [n |-> "EXTRA", k |-> "fb",
                                   vars |-> <<V("q", "VAR", "-", "INT", NoInit), V("ci", "VAR", "-", "CALLEE", NoInit)>>,
                                   body |-> <<A(NoWrap, "q", <<"int", "1">>), C(NoWrap, "ci", <<<<"in1", "q">>>>, <<>>, <<>>)>>])])

(* --- planting: the documented "Fails" shape of one rule at one site --- *)
\* the name of the first element once more - or twice more (n = 2): the later ones are each a duplicate of the FIRST
PlantDupStructElem == \E n \in {1, 2} :
                        Edit(<<"plant:StructElemUnique", "PT", n>>,
                             [unit EXCEPT !.types[3].elems = @ \o [i \in 1..n |-> [n |-> "x", ty |-> "BOOL", init |-> NoInit]]])
\* bounds with signs: the order is that of the integers, not of the magnitudes
GrowSignedSubrange == \E b \in {<<-5, -1>>, <<-10, 10>>, <<-1, 0>>} : unit.types[4].lo = 1 /\
                        Edit(<<"grow:signedsubrange", b[1], b[2]>>, [unit EXCEPT !.types[4].lo = b[1], !.types[4].hi = b[2]])
PlantBadSubrange == \E b \in {<<10, 1>>, <<5, 5>>, <<-1, -5>>, <<5, -5>>, <<0, 0>>, <<-3, -3>>} : Edit(<<"plant:SubrangeOrdered", "RNG", b[1], b[2]>>, [unit EXCEPT !.types[4].lo = b[1], !.types[4].hi = b[2]])
\* a value listed twice - both spelled alike, or one of them with the type prefix
PlantDupEnumValue == \E v \in {"LOW", "HIGH"}, q \in {"plain", "second-qualified", "first-qualified", "twice"} :
                       LET n == Len(unit.types[1].vals) + 1
                           first == CHOOSE i \in 1..(n - 1) : unit.types[1].vals[i] = v
                       IN  Edit(<<"plant:EnumValuesUnique", "LEVEL", v, q>>,
                                [unit EXCEPT !.types[1].vals = IF q = "twice" THEN @ \o <<v, v>> ELSE Append(@, v),
                                             !.types[1].qual = @ \cup (IF q = "second-qualified" THEN {n} ELSE IF q = "first-qualified" THEN {first} ELSE {})])
GrowQualifyEnumValue == unit.types[1].qual = {} /\ Edit(<<"grow:qualify">>, [unit EXCEPT !.types[1].qual = {2}])
GrowQualifyUses == ~unit.useq /\ Edit(<<"grow:qualifyuse">>, [unit EXCEPT !.useq = TRUE])
GrowQualifyUsesAlias == ~unit.useq /\ ~unit.useqalias /\ Edit(<<"grow:qualifyusealias">>, [unit EXCEPT !.useqalias = TRUE])
\* an undeclared name in every role of every statement of every POU.  The name is one that exists nowhere ("zz"),
\* or - scoping - one that IS declared, but not in this POU: a variable of the previous / next POU of the unit,
\* or a global this POU has no VAR_EXTERNAL declaration for.
OtherNames(i, k) == IF k \in PouIdx(unit) /\ k # i
                    THEN {v.n : v \in {w \in VarsOf(unit.pous[k]) : w.ty \in {"INT", "BOOL"}}} \ (VarNames(unit.pous[i]) \cup {unit.pous[i].n})
                    ELSE {}
PickOne(S) == IF S = {} THEN {} ELSE {CHOOSE x \in S : TRUE}
\* ... or the NAME of the previous / next POU itself: a function block, function or program is not a variable of its
\* neighbours (only a function may use its own name, as its result)
PouNames(i) == {unit.pous[k].n : k \in {i - 1, i + 1} \cap PouIdx(unit)} \ (VarNames(unit.pous[i]) \cup {unit.pous[i].n})
ForeignNames(i) == PickOne(OtherNames(i, i - 1)) \cup PickOne(OtherNames(i, i + 1))
                   \cup PickOne({g.n : g \in Globals(unit)} \ (VarNames(unit.pous[i]) \cup {unit.pous[i].n}))
                   \cup PouNames(i)
PlantUndeclaredVar ==
  \E i \in PouIdx(unit), j \in 1..5, role \in {"tgt", "src", "wrap", "arg", "out", "pos"} :
   \E zz \in {"zz"} \cup ForeignNames(i) :
    /\ j <= Len(unit.pous[i].body)
    /\ LET s == unit.pous[i].body[j]
       IN  /\ CASE role = "tgt"  -> s.k = "assign"
                [] role = "src"  -> s.k = "assign" /\ s.src[1] \in {"var", "sum", "fcall", "field", "index", "nested", "neg"}
                [] role = "wrap" -> s.wrap[1] \notin {"-", "else"}
                [] role = "arg"  -> s.k = "call" /\ s.named # <<>>
                [] role = "out"  -> s.k = "call" /\ s.outs # <<>>
                [] role = "pos"  -> s.k = "call" /\ s.pos # <<>>
           /\ Edit(<<"plant:VarDeclared", unit.pous[i].n, j, role, zz>>,
                   SetStmt(unit, i, j,
                     CASE role = "tgt"  -> [s EXCEPT !.tgt = zz]
                       [] role = "src"  -> [s EXCEPT !.src = IF s.src[1] = "var" THEN <<"var", zz>> ELSE IF s.src[1] = "sum" THEN <<"sum", s.src[2], zz>>
                                                              ELSE IF s.src[1] = "field" THEN <<"field", zz, s.src[3]>>
                                                              ELSE IF s.src[1] = "index" THEN <<"index", s.src[2], zz>>
                                                              ELSE IF s.src[1] = "nested" THEN <<"nested", s.src[2], zz>>
                                                              ELSE IF s.src[1] = "neg" THEN <<"neg", zz>> ELSE <<"fcall", s.src[2], zz>>]
                       [] role = "wrap" -> [s EXCEPT !.wrap[2] = zz]
                       [] role = "arg"  -> [s EXCEPT !.named[1] = <<s.named[1][1], zz>>]
                       [] role = "out"  -> [s EXCEPT !.outs[1] = <<s.outs[1][1], zz>>]
                       [] role = "pos"  -> [s EXCEPT !.pos[1] = zz]))
\* an undeclared name in the condition of a transition of a chart
PlantUndeclaredInTransition == \E n \in unit.sfc : \E zz \in {"zz"} :
    Edit(<<"plant:VarDeclared", n, 0, "transition", zz>>, [unit EXCEPT !.tcond[n] = zz])
\* an initial value that is not a value of the enumeration: in every variable class of every POU, in a structure element, in an alias
PlantBadEnumInit ==
  \/ \E i \in PouIdx(unit), cls \in {"VAR", "VAR_INPUT", "VAR_OUTPUT"}, ty \in {"LEVEL", "LEVEL2", "LEVEL3"} \cap (TypeNames(unit) \cup {"LEVEL"}) :
        /\ ~(unit.pous[i].k = "func" /\ cls = "VAR_OUTPUT") /\ "ne" \notin VarNames(unit.pous[i]) /\ (cls = "VAR_INPUT" => CanAddInput(i))
        /\ Edit(<<"plant:EnumValueDeclared", unit.pous[i].n, cls, ty>>, AddVarTo(unit, i, V("ne", cls, "-", ty, <<"enum", "NOPE">>)))
  \/ Edit(<<"plant:EnumValueDeclared", "PT", "element">>, [unit EXCEPT !.types[3].elems[3].init = <<"enum", "NOPE">>])
  \/ Edit(<<"plant:EnumValueDeclared", "LEVEL2", "alias">>, [unit EXCEPT !.types[2].def = "NOPE"])
  \/ Edit(<<"plant:EnumValueDeclared", "LEVEL", "default">>, [unit EXCEPT !.types[1].def = "NOPE"])
PlantBadEnumStmt == \E i \in {2} : Edit(<<"plant:StmtEnumValueDeclared", unit.pous[i].n>>, SetStmt(unit, i, 3, [unit.pous[i].body[3] EXCEPT !.src = <<"enumv", "NOPE">>]))
PlantUnknownType ==
  \/ \E i \in PouIdx(unit), cls \in {"VAR", "VAR_INPUT", "VAR_OUTPUT"}, ini \in {NoInit, <<"enum", "LOW">>} :
        /\ ~(unit.pous[i].k = "func" /\ cls = "VAR_OUTPUT") /\ "nt" \notin VarNames(unit.pous[i]) /\ (cls = "VAR_INPUT" => CanAddInput(i))
        /\ Edit(<<"plant:TypeDeclared", unit.pous[i].n, cls, ini[1]>>, AddVarTo(unit, i, V("nt", cls, "-", "MISSING", ini)))
  \/ Edit(<<"plant:TypeDeclared", "PT", "element">>, [unit EXCEPT !.types[3].elems = Append(@, [n |-> "w", ty |-> "MISSING", init |-> NoInit])])
  \/ Edit(<<"plant:TypeDeclared", "LEVEL2", "alias">>, [unit EXCEPT !.types[2].base = "MISSING"])
\* a variable of a standard function block type the compiler does not implement - declared only, or also invoked
PlantStdlib == \E i \in PouIdx(unit), ty \in UnsupportedStd, invoked \in BOOLEAN : "ns" \notin VarNames(unit.pous[i]) /\
                 LET u2 == AddVarTo(unit, i, V("ns", "VAR", "-", ty, NoInit))
                 IN  Edit(<<"plant:StdlibSupported", unit.pous[i].n, ty, IF invoked THEN "invoked" ELSE "declared">>,
                          IF invoked THEN AddStmtTo(u2, i, C(NoWrap, "ns", <<>>, <<>>, <<>>)) ELSE u2)
\* an invocation of something that is not an instance of this POU: a name declared nowhere ("ghost"), or - scoping -
\* the name of an instance that another POU declares (the previous / next one: a leak between sibling declarations)
ForeignInstances(i) == UNION {PickOne({v.n : v \in {w \in VarsOf(unit.pous[k]) : w.ty \in FBNames(unit)}} \ VarNames(unit.pous[i])) :
                                 k \in {i - 1, i + 1} \cap PouIdx(unit)}
PlantUnknownInstance == \E i \in PouIdx(unit), w \in {NoWrap, <<"if", "">>, <<"for", "">>} : HasIntVar(unit.pous[i]) /\
                 \E g \in {"ghost"} \cup ForeignInstances(i) :
                 Edit(<<"plant:FBInstanceDeclared", unit.pous[i].n, w[1], g>>,
                      AddStmtTo(unit, i, C(IF w = NoWrap THEN NoWrap ELSE <<w[1], IntVar(unit.pous[i]).n>>, g, <<>>, <<>>, <<>>)))
\* the invocation faults, on the invocation of CALLER (2nd statement) and on a fresh invocation in every POU that has an instance
CallSites(u) == {<<i, j>> \in PouIdx(u) \X (1..4) : j <= Len(u.pous[i].body) /\ u.pous[i].body[j].k = "call" /\ HasCallee(u, u.pous[i], u.pous[i].body[j])}
PlantMix == \E c \in CallSites(unit) : LET s == unit.pous[c[1]].body[c[2]] IN s.named # <<>> /\
              Edit(<<"plant:InvocationNoMix", unit.pous[c[1]].n, c[2]>>, SetStmt(unit, c[1], c[2], [s EXCEPT !.pos = <<s.named[1][2]>>]))
PlantUnknownInput == \E c \in CallSites(unit) : LET s == unit.pous[c[1]].body[c[2]] IN s.pos = <<>> /\
              \E f \in {"bogus"} \cup ((VarNames(Callee(unit, unit.pous[c[1]], s)) \ NamedFormals(Callee(unit, unit.pous[c[1]], s))) \cap {"tmp", "out1"}) :
              Edit(<<"plant:InputsDeclared", unit.pous[c[1]].n, c[2], f>>, SetStmt(unit, c[1], c[2], [s EXCEPT !.named = Append(@, <<f, "TRUE">>)]))
PlantArity == \E c \in CallSites(unit), n \in {1, 3} : LET s == unit.pous[c[1]].body[c[2]] IN s.named = <<>> /\ s.pos # <<>> /\
              Edit(<<"plant:PositionalArity", unit.pous[c[1]].n, c[2], n>>,
                   SetStmt(unit, c[1], c[2], [s EXCEPT !.pos = IF n = 1 THEN <<s.pos[1]>> ELSE s.pos \o <<s.pos[1]>>]))
\* an output formal the callee does not have: a name declared nowhere, or - if the callee has one - the name of an
\* in-out variable (which is bound with :=, not with =>)
PlantUnknownOutput == \E c \in CallSites(unit) : LET s == unit.pous[c[1]].body[c[2]] IN
              \E f \in {"nothere"} \cup InOuts(Callee(unit, unit.pous[c[1]], s))
                         \cup ((VarNames(Callee(unit, unit.pous[c[1]], s)) \ Outputs(Callee(unit, unit.pous[c[1]], s))) \cap {"in1", "tmp"}) :
              Edit(<<"plant:OutputsDeclared", unit.pous[c[1]].n, c[2], f>>,
                   SetStmt(unit, c[1], c[2], [s EXCEPT !.outs = Append(@, <<f, IntVar(unit.pous[c[1]]).n>>)]))
\* a task that is defined nowhere ("TX"), or - scoping - one that IS defined, but in the resource of the other configuration
PlantUndefinedTask ==
  \/ \E i \in 1..Len(unit.config.progs), t \in {"TX"} \cup (Range(unit.config2.tasks) \ Range(unit.config.tasks)) :
        Edit(<<"plant:TaskDefined", unit.config.progs[i].n, t>>, [unit EXCEPT !.config.progs[i].task = t])
  \/ \E i \in 1..Len(unit.config2.progs), t \in {"TX"} \cup (Range(unit.config.tasks) \ Range(unit.config2.tasks)) :
        Edit(<<"plant:TaskDefined", unit.config2.progs[i].n, t>>, [unit EXCEPT !.config2.progs[i].task = t])
PlantConstNoInit ==
  \/ \E i \in PouIdx(unit), ty \in {"INT", "LEVEL"} : "nc" \notin VarNames(unit.pous[i]) /\
        Edit(<<"plant:ConstInitialised", unit.pous[i].n, ty>>, AddVarTo(unit, i, V("nc", "VAR", "CONSTANT", ty, NoInit)))
  \/ Edit(<<"plant:ConstInitialised", "CALLER", "k">>, SetVar(unit, 2, 9, [unit.pous[2].vars[9] EXCEPT !.init = NoInit]))
PlantConstFB == \E i \in PouIdx(unit) \ {1} : "nf" \notin VarNames(unit.pous[i]) /\
                 Edit(<<"plant:ConstNotFB", unit.pous[i].n>>, AddVarTo(unit, i, V("nf", "VAR", "CONSTANT", "CALLEE", NoInit)))
PlantExternNotConst ==
  \* the global of the RESOURCE becomes constant (MAIN's external declaration of it is not)
  \* (only while it is the only global of the resource: the resource has ONE block of globals, with one qualifier)
  \/ (Len(unit.config.rglobals) = 1 /\
        Edit(<<"plant:ExternOfConstIsConst", "CFG", "gv">>, [unit EXCEPT !.config.rglobals[1].q = "CONSTANT"]))
  \/ Edit(<<"plant:ExternOfConstIsConst", "MAIN", "gk">>, SetVar(unit, 4, 1, [unit.pous[4].vars[1] EXCEPT !.q = "-"]))
  \/ \E i \in {1, 2} : Edit(<<"plant:ExternOfConstIsConst", unit.pous[i].n, "new">>, AddVarTo(unit, i, V("gk", "VAR_EXTERNAL", "-", "INT", NoInit)))

Grow == (("grow" \in EditKinds) /\ (GrowVar \/ GrowConst \/ GrowStmt \/ GrowWrap \/ GrowEnumValue \/ GrowStructElem \/ GrowType \/ GrowTask
                                     \/ GrowPositionalCall \/ GrowEmptyCall \/ GrowInOut \/ GrowGlobal \/ GrowPou \/ GrowConfig2 \/ GrowStdNamedType \/ GrowQualifyEnumValue \/ GrowQualifyUses \/ GrowQualifyUsesAlias \/ GrowSfc \/ GrowFieldIndex \/ GrowSignedSubrange \/ GrowStruct2 \/ GrowEnumShared \/ GrowAlias2 \/ GrowExpr))
Plant == (("plant" \in EditKinds) /\ (PlantUndeclaredInTransition \/ PlantDupStructElem \/ PlantBadSubrange \/ PlantDupEnumValue \/ PlantUndeclaredVar \/ PlantBadEnumInit
                                       \/ PlantBadEnumStmt \/ PlantUnknownType \/ PlantStdlib \/ PlantUnknownInstance \/ PlantMix
                                       \/ PlantUnknownInput \/ PlantArity \/ PlantUnknownOutput \/ PlantUndefinedTask \/ PlantConstNoInit
                                       \/ PlantConstFB \/ PlantExternNotConst))

IsGrow(e) == e[1] \in {"grow:signedsubrange", "grow:struct2", "grow:enumshared", "grow:alias2", "grow:nested", "grow:neg", "grow:sfc", "grow:field", "grow:index", "grow:qualify", "grow:qualifyuse", "grow:qualifyusealias", "grow:config2", "grow:stdnamedtype", "grow:inout", "grow:var", "grow:const", "grow:stmt", "grow:wrap", "grow:enumvalue", "grow:structelem", "grow:type", "grow:task",
                       "grow:positionalcall", "grow:emptycall", "grow:global", "grow:pou"}

Init == unit = Base /\ edits = <<>>
Next == /\ Len(edits) < MaxEdits
        /\ IF Shape = "gp" THEN (edits = <<>> /\ (Grow \/ Plant)) \/ (Len(edits) = 1 /\ IsGrow(edits[1]) /\ Plant)
                           ELSE Grow \/ Plant
Spec == Init /\ [][Next]_vars

---------------------------------------------------------------------------
(* Properties of the specification itself *)
PlantedRules == {e[1] : e \in {edits[i] : i \in {j \in 1..Len(edits) : ~IsGrow(edits[j])}}}
RuleOfEdit(l) == CHOOSE r \in Rules : l = "plant:" \o r
BaseValid == edits = <<>> => Violated(unit) = {}
GrowPreservesValid == (\A i \in 1..Len(edits) : IsGrow(edits[i])) => Violated(unit) = {}
\* a single planted fault violates the rule it was planted for; with two planted faults the second may make the
\* first one moot by the rules' own meaning (e.g. the alias whose default was wrong now has an unknown base), but
\* the unit is never valid
NPlants == Cardinality({i \in 1..Len(edits) : ~IsGrow(edits[i])})
PlantSound == /\ (NPlants = 1 => \A l \in PlantedRules : RuleOfEdit(l) \in Violated(unit))
              /\ (NPlants >= 1 => Violated(unit) # {})
\* and nothing else is violated by a single plant except rules that necessarily follow
Consequences(r) == CASE r = "TypeDeclared" -> {"EnumValueDeclared"} [] r = "EnumValuesUnique" -> {}
                     [] r = "StdlibSupported" -> {"FBInstanceDeclared"}     \* an invoked variable of such a type is not an instance of a declared block
                     [] OTHER -> {}
SingleFaultIsSingle == (Len(edits) >= 1 /\ Cardinality(PlantedRules) = 1 /\ Cardinality({i \in 1..Len(edits) : ~IsGrow(edits[i])}) = 1) =>
                          \A r \in Violated(unit) : r = RuleOfEdit(CHOOSE l \in PlantedRules : TRUE) \/ r \in Consequences(RuleOfEdit(CHOOSE l \in PlantedRules : TRUE))

(* C05: what the label of the diagnostic for a planted fault must cover - the spelling of the construct the
   rule talks about.  "<call>" stands for the text of the whole invocation. *)
LabelTargets(e) ==
  CASE e[1] = "plant:StructElemUnique"      -> {"x", "PT"}
    [] e[1] = "plant:SubrangeOrdered"       -> {ToString(e[3]), ToString(e[4]), "RNG"}
    [] e[1] = "plant:EnumValuesUnique"      -> {e[3], "LEVEL", "LEVEL#" \o e[3]}
    [] e[1] = "plant:VarDeclared"           -> {e[5]}
    [] e[1] = "plant:EnumValueDeclared"     -> {"NOPE", "LEVEL#NOPE", "LEVEL2#NOPE"}
    [] e[1] = "plant:StmtEnumValueDeclared" -> {"NOPE"}
    [] e[1] = "plant:TypeDeclared"          -> {"MISSING"}
    [] e[1] = "plant:StdlibSupported"       -> {e[3]}
    [] e[1] = "plant:FBInstanceDeclared"    -> {e[4], "<call>"}
    [] e[1] = "plant:InvocationNoMix"       -> {"<call>"}
    [] e[1] = "plant:InputsDeclared"        -> {"<call>", e[4]}
    [] e[1] = "plant:PositionalArity"       -> {"<call>"}
    [] e[1] = "plant:OutputsDeclared"       -> {"<call>", e[4]}
    [] e[1] = "plant:TaskDefined"           -> {e[3], e[2]}
    [] e[1] = "plant:ConstInitialised"      -> {"nc", "k"}
    [] e[1] = "plant:ConstNotFB"            -> {"nf", "CALLEE"}
    [] e[1] = "plant:ExternOfConstIsConst"  -> {"gk", "gv"}
    [] OTHER                                -> {}
Replay == [R |-> "unit", unit |-> unit, edits |-> edits, violated |-> Violated(unit),
           codes |-> [r \in Violated(unit) |-> Code(r)],
           targets |-> [i \in 1..Len(edits) |-> LabelTargets(edits[i])]]
EmitReplay == Emit => PrintT(ToJson(Replay))
=============================================================================
