SPECIFICATION Spec
CONSTANTS
  NNodes = 2
  Emit = TRUE
  RandomGraphs = 0
  EdgeCounts = {}
  Shapes = {}
  SliceK = 0
  SliceM = 1
INVARIANTS TwoDefinitionsAgree EmitReplay
CHECK_DEADLOCK FALSE
