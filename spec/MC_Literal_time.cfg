SPECIFICATION Spec
CONSTANTS
  Kinds = {"date", "tod", "dt"}
  Emit = TRUE
INVARIANTS ValueTwoWays LeapSanity EmitReplay
CHECK_DEADLOCK FALSE
