SPECIFICATION Spec
CONSTANTS
  Kinds = {"date", "tod", "dt", "ill"}
  Emit = TRUE
INVARIANTS ValueTwoWays LeapSanity EmitReplay
CHECK_DEADLOCK FALSE
