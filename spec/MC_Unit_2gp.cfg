SPECIFICATION Spec
CONSTANTS
  MaxEdits = 2
  EditKinds = {"grow", "plant"}
  Emit = TRUE
  Shape = "gp"
INVARIANTS BaseValid GrowPreservesValid PlantSound SingleFaultIsSingle EmitReplay
CHECK_DEADLOCK FALSE
