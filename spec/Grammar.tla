------------------------------ MODULE Grammar ------------------------------
(***************************************************************************)
(* The supported IEC 61131-3 subset as a DERIVATION MACHINE.               *)
(*                                                                         *)
(* Productions (module GrammarProds, transcribed from IEC 61131-3 Annex B) *)
(* are data.  A state is a partial leftmost derivation:                    *)
(*   stack  pending grammar symbols                                        *)
(*   out    tokens emitted so far  <<category, spelling, glued-to-previous>>*)
(*   vals   semantic value stack; `reduce` symbols build the abstract      *)
(*          syntax the sentence DENOTES (so precedence and associativity   *)
(*          are those of the stratified Annex B.3.1 grammar by             *)
(*          construction, not by a second parser)                          *)
(*   fuel   budget for the productions that make a sentence larger         *)
(* TLC enumerates every complete derivation within the budget and prints   *)
(* (tokens, denoted abstract syntax, production labels used).  The harness *)
(* spells the tokens, feeds the real parser and compares the projected     *)
(* library with the denoted abstract syntax (C01); the same sentences are  *)
(* re-spelled (C08), rendered and re-parsed (C10), mutated (C04) and their *)
(* identifier tokens located (C05).                                        *)
(***************************************************************************)
EXTENDS Naturals, Sequences, FiniteSets, TLC, Json, GrammarProds

CONSTANTS Start,        \* start non-terminal of this configuration
          Fuel,         \* budget
          Quarantine,   \* production labels excluded from this enumeration
          Only,         \* if non-empty: a derivation must use at least one of these labels
          Offsets,      \* set of naturals: rotation of the literal pools.  The i-th literal of a sentence is entry
                        \* (i + offset) of its pool; with Offsets = 0..(longest pool - 1) every entry of every pool
                        \* stands in every literal position of every sentence (the "sweep" configurations)
          Allow,        \* if non-empty: the only costly (cost > 0) productions that may be used - a "shape" configuration
                        \* that spends its fuel on one corner of the grammar
          Emit

VARIABLES stack, out, vals, fuel, nid, nlit, labs, gl, off
vars == <<stack, out, vals, fuel, nid, nlit, labs, gl, off>>

---------------------------------------------------------------------------
(* Deterministic part of a step: shift terminals, name identifiers, pick literals round-robin, reduce.
   Runs until a non-terminal is on top of the stack or the stack is empty. *)
Popped(v, n) == SubSeq(v, Len(v) - n + 1, Len(v))
Kept(v, n)   == SubSeq(v, 1, Len(v) - n)

RECURSIVE Run(_)
Run(c) ==
  IF c.stack = <<>> THEN c
  ELSE LET s == Head(c.stack)
           rest == Tail(c.stack)
       IN  CASE s[1] = "t"   -> Run([c EXCEPT !.stack = rest, !.g = FALSE, !.out = Append(c.out, <<s[2], s[3], s[4] \/ c.g>>)])
             [] s[1] = "id"  -> LET name == IdNames[c.nid + 1]
                                IN  Run([c EXCEPT !.stack = rest, !.nid = c.nid + 1, !.g = FALSE,
                                                  !.out = Append(c.out, <<"id", name, s[2] \/ c.g>>),
                                                  !.vals = Append(c.vals, V(name))])
             [] s[1] = "lit" -> LET pool == LitPool[s[2]]
                                    l == pool[((c.nlit + c.off) % Len(pool)) + 1]
                                IN  Run([c EXCEPT !.stack = rest, !.nlit = c.nlit + 1, !.g = FALSE,
                                                  !.out = Append(c.out, <<"lit", l[1], s[3] \/ c.g>>),
                                                  !.vals = Append(c.vals, l[2]),
                                                  !.lits = c.lits \cup {"lit:" \o s[2] \o ":" \o l[1]}])
             [] s[1] = "g"   -> Run([c EXCEPT !.stack = rest, !.g = TRUE])
             [] s[1] = "r"   -> Run([c EXCEPT !.stack = rest,
                                              !.vals = Append(Kept(c.vals, s[3]), <<s[2]>> \o Popped(c.vals, s[3]))])
             [] s[1] = "s"   -> LET n == Len(c.vals)
                                IN  Run([c EXCEPT !.stack = rest,
                                                  !.vals = Append(Kept(c.vals, 2), Append(c.vals[n - 1], c.vals[n]))])
             [] s[1] = "p"   -> Run([c EXCEPT !.stack = rest, !.vals = Append(c.vals, s[2])])
             [] OTHER        -> c      \* non-terminal on top: a choice is needed

Cfg == [stack |-> stack, out |-> out, vals |-> vals, nid |-> nid, nlit |-> nlit, g |-> gl, lits |-> {}, off |-> off]

Init == \E o \in Offsets :
        LET c == Run([stack |-> <<N(Start)>>, out |-> <<>>, vals |-> <<>>, nid |-> 0, nlit |-> 0, g |-> FALSE, lits |-> {}, off |-> o])
        IN  /\ off = o
            /\ stack = c.stack /\ out = c.out /\ vals = c.vals /\ nid = c.nid /\ nlit = c.nlit /\ gl = c.g
            /\ fuel = Fuel /\ labs = c.lits

(* One step: expand the non-terminal on top by any production the budget allows, then run on *)
Expand ==
  /\ stack # <<>>
  /\ \E p \in Prods[Head(stack)[2]] :
        /\ p.c <= fuel
        /\ p.l \notin Quarantine
        /\ (Allow = {} \/ p.c = 0 \/ p.l \in Allow)
        /\ LET c == Run([Cfg EXCEPT !.stack = p.r \o Tail(stack)])
           IN  /\ stack' = c.stack /\ out' = c.out /\ vals' = c.vals /\ nid' = c.nid /\ nlit' = c.nlit /\ gl' = c.g
               /\ labs' = (IF p.l = "" THEN labs ELSE labs \cup {p.l}) \cup c.lits
        /\ fuel' = fuel - p.c
        /\ off' = off

Next == Expand
Spec == Init /\ [][Next]_vars

Done == stack = <<>>

---------------------------------------------------------------------------
(* Properties of the specification itself *)
\* a finished derivation denotes exactly one value
OneValue == Done => Len(vals) = 1

\* leaves of a value, in order (strings that are generated identifiers)
RECURSIVE Leaves(_)
RECURSIVE LeavesFrom(_, _)
Leaves(v) == IF v[1] = "$" THEN (IF v[2] \in GenNames THEN <<v[2]>> ELSE <<>>) ELSE LeavesFrom(v, 2)
LeavesFrom(v, i) == IF i > Len(v) THEN <<>> ELSE Leaves(v[i]) \o LeavesFrom(v, i + 1)

IdTokens == SelectSeq(out, LAMBDA t : t[1] = "id")
\* NothingDropped: every identifier written in the sentence occurs in the denoted value, exactly once and
\* in source order  (identifiers are pairwise distinct by construction)
NothingDropped == Done => Leaves(vals[1]) = [i \in 1..Len(IdTokens) |-> IdTokens[i][2]]

\* the budget strictly decreases along every cycle of the grammar => every derivation terminates
Terminates == fuel \in 0..Fuel

\* binary nodes never have a child that binds weaker, nor a right child that binds equally,
\* unless the child was written in parentheses (Paren nodes are kept in the value for this purpose)
Prec(op) == CASE op = "OR" -> 1 [] op = "XOR" -> 2 [] op \in {"AND", "&"} -> 3 [] op \in {"=", "<>"} -> 4
              [] op \in {"<", ">", "<=", ">="} -> 5 [] op \in {"+", "-"} -> 6 [] op \in {"*", "/", "MOD"} -> 7
              [] op = "**" -> 8 [] OTHER -> 0
IsBin(v) == v[1] = "Bin"
RECURSIVE ShapeOK(_)
ShapeOK(v) ==
  IF v[1] = "$" THEN TRUE
  ELSE /\ (IsBin(v) =>
             /\ (IsBin(v[2]) => Prec(v[2][3][2]) >= Prec(v[3][2]))
             /\ (IsBin(v[4]) => Prec(v[4][3][2]) > Prec(v[3][2])))
       /\ \A i \in 2..Len(v) : ShapeOK(v[i])
PrecedenceShape == Done => ShapeOK(vals[1])

---------------------------------------------------------------------------
Interesting == Only = {} \/ labs \cap Only # {}
Replay == [R |-> "g", start |-> Start, toks |-> out, val |-> vals[1], labs |-> labs, off |-> off]
\* the spellings of every literal pool, printed once per run: the checks require that each was exercised
PoolNames == [k \in DOMAIN LitPool |-> [i \in 1..Len(LitPool[k]) |-> LitPool[k][i][1]]]
ASSUME PrintT(ToJson([R |-> "pool", pool |-> PoolNames]))
EmitReplay == (Emit /\ Done /\ Interesting) => PrintT(ToJson(Replay))
=============================================================================
