---------------------------- MODULE GrammarProds ----------------------------
(***************************************************************************)
(* Reference grammar of the supported IEC 61131-3 subset, as data for the  *)
(* derivation machine of Grammar.tla.  Transcribed from IEC 61131-3        *)
(* (2nd ed.) Annex B; production names follow the annex.                   *)
(*                                                                         *)
(* Grammar symbols                                                         *)
(*   T(s) / Tg(s)   terminal (keyword, operator, punctuation); g = written *)
(*                  without white space before it (the annex allows white  *)
(*                  space between any two tokens; the canonical spelling   *)
(*                  puts exactly one blank wherever g is not set)          *)
(*   ID / IDg       a fresh identifier IdNames[1], IdNames[2], ... (pushed as a value)     *)
(*   L(k) / Lg(k)   a literal of kind k, drawn round-robin from LitPool[k] *)
(*                  (pushed: its denoted value)                            *)
(*   N(nt)          non-terminal                                           *)
(*   R(tag, n)      reduce: pop n values, push <<tag, v1, .., vn>>         *)
(*   S              snoc: pop list and item, push Append(list, item)       *)
(*   P(v)           push the constant v  (<<>> starts a list, "-" = absent)*)
(* A production is [l |-> label, c |-> cost, r |-> right-hand side].       *)
(***************************************************************************)
EXTENDS Naturals, Sequences, TLC

T(s)   == <<"t", "kw", s, FALSE>>
Tg(s)  == <<"t", "kw", s, TRUE>>
ID     == <<"id", FALSE>>
IDg    == <<"id", TRUE>>
L(k)   == <<"lit", k, FALSE>>
Lg(k)  == <<"lit", k, TRUE>>
N(nt)  == <<"n", nt>>
R(t, n) == <<"r", t, n>>
S      == <<"s">>
G      == <<"g">>                \* the next token is written without white space before it
P(v)   == <<"p", v>>
(* Values: every value is a tuple <<tag, children...>>; a leaf is <<"$", text>>, a list is <<"L", items...>>
   (so that values can be traversed without type tests) *)
V(s)   == <<"$", s>>
Nil    == P(<<"L">>)
None   == P(V("-"))
PV(s)  == P(V(s))

Pr(l, c, r) == [l |-> l, c |-> c, r |-> r]
Eps == Pr("", 0, <<>>)

\* the identifiers of a sentence, in order of appearance: together they use every letter, every digit and the underscore
IdNames == <<"abc1", "def2", "ghi3", "jkl4", "mno5", "pqr6", "stu7", "vwx8", "yza9", "bcd10", "e_f11", "gh_12", "ijk13", "lmn14", "opq15", "rst16", "uvw17", "xyz18", "Abc19", "dEf20", "ghI21", "Jkl_22", "mn0p23", "q_r_s24", "tuv25", "wxy26", "zab27", "cde28", "fgh29", "ijkl30", "mnop31", "qrst32", "uvwx33", "yzab34", "cdef35", "g1h36", "i2j37", "k3l38", "m4n39", "o5p40">>
GenNames == {IdNames[i] : i \in 1..Len(IdNames)}

(* Literal pool: <<spelling, denoted value>>.  Values are strings / tuples of strings (exact, no machine
   arithmetic): integers as decimal digit strings, durations as whole nanoseconds, ... *)
Int(t, v)  == <<"Int", V(t), V(v)>>
Real(t, v) == <<"Real", V(t), V(v)>>
Dt(y, mo, d, h, mi, sec) == <<"Dt", V(y), V(mo), V(d), V(h), V(mi), V(sec), V("0")>>
DtF(y, mo, d, h, mi, sec, fr) == <<"Dt", V(y), V(mo), V(d), V(h), V(mi), V(sec), V(fr)>>
Addr(l, sz, a) == <<"Addr", V(l), V(sz), a>>
LitPool == [
  int  |-> << <<"7", Int("-", "7")>>, <<"1_000", Int("-", "1000")>>, <<"16#FF", Int("-", "255")>>,
              <<"0", Int("-", "0")>>, <<"2#1010", Int("-", "10")>>, <<"8#17", Int("-", "15")>> >>,
  uint |-> << <<"3", V("3")>>, <<"10", V("10")>>, <<"42", V("42")>> >>,
  pint |-> << <<"5", <<"SInt", V("5")>> >>, <<"+9", <<"SInt", V("9")>> >>, <<"0", <<"SInt", V("0")>> >>, <<"1_0", <<"SInt", V("10")>> >> >>,
  nint |-> << <<"-2", <<"SInt", V("-2")>> >>, <<"-10", <<"SInt", V("-10")>> >> >>,
  \* positive values first: the first subrange of a declaration has positive bounds, later ones a negative bound
  sint |-> << <<"5", <<"SInt", V("5")>> >>, <<"+9", <<"SInt", V("9")>> >>, <<"0", <<"SInt", V("0")>> >>, <<"-2", <<"SInt", V("-2")>> >> >>,
  tint |-> << <<"INT#5", Int("INT", "5")>>, <<"UDINT#16#10", Int("UDINT", "16")>>, <<"SINT#-3", Int("SINT", "-3")>>,
               <<"DINT#+6", Int("DINT", "6")>>, <<"USINT#8#17", Int("USINT", "15")>>, <<"LINT#2#101", Int("LINT", "5")>>,
               <<"ULINT#1_0", Int("ULINT", "10")>>, <<"UINT#0", Int("UINT", "0")>> >>,
  real |-> << <<"1.5", Real("-", "1.5")>>, <<"2.5E3", Real("-", "2500.0")>>, <<"REAL#0.25", Real("REAL", "0.25")>>,
              <<"1.0e-2", Real("-", "0.01")>>, <<"-1.5", Real("-", "-1.5")>>, <<"LREAL#-2.5", Real("LREAL", "-2.5")>>,
              <<"+0.5", Real("-", "0.5")>>, <<"1_0.2_5", Real("-", "10.25")>> >>,
  bool |-> << <<"TRUE", <<"Bool", V("TRUE")>> >>, <<"FALSE", <<"Bool", V("FALSE")>> >>, <<"BOOL#TRUE", <<"Bool", V("TRUE")>> >>,
              <<"BOOL#FALSE", <<"Bool", V("FALSE")>> >> >>,
  \* incl. strings whose content begins and ends with the OTHER kind of quote (a quote is a character like any other there)
  str  |-> << <<"'abc'", <<"Str", V("abc")>> >>, <<"''", <<"Str", V("")>> >>, <<"'a b'", <<"Str", V("a b")>> >>,
              <<"'\"q\"'", <<"Str", V("\"q\"")>> >>, <<"STRING#'tp'", <<"Str", V("tp")>> >>,
              \* non-ASCII characters are written <HEX>: no-break space, e acute, euro sign (drivers/gram.py unmark)
              <<"'n<A0>b<E9><20AC>'", <<"Str", V("n<A0>b<E9><20AC>")>> >>,
              \* longer than a line of the renderer, with blanks in it
              <<"'long text long text long text long text long text long text long text long text long text long text long text long text long text long text end'", <<"Str", V("long text long text long text long text long text long text long text long text long text long text long text long text long text long text end")>> >> >>,
  wstr |-> << <<"\"wx\"", <<"Str", V("wx")>> >>, <<"\"'y'\"", <<"Str", V("'y'")>> >>, <<"WSTRING#\"tw\"", <<"Str", V("tw")>> >>, <<"\"w<A0><1F600>\"", <<"Str", V("w<A0><1F600>")>> >>,
              <<"\"wide text wide text wide text wide text wide text wide text wide text wide text wide text wide text wide text wide text wide text wide text end\"", <<"Str", V("wide text wide text wide text wide text wide text wide text wide text wide text wide text wide text wide text wide text wide text wide text end")>> >> >>,
  dur  |-> << <<"T#1.5s", <<"Dur", V("1500000000")>> >>, <<"TIME#2m", <<"Dur", V("120000000000")>> >>,
              <<"T#-250ms", <<"Dur", V("-250000000")>> >>, <<"T#1d", <<"Dur", V("86400000000000")>> >>,
              <<"t#3h", <<"Dur", V("10800000000000")>> >>, <<"T#1.5h", <<"Dur", V("5400000000000")>> >>,
              <<"time#-2.5m", <<"Dur", V("-150000000000")>> >>, <<"T#0.5d", <<"Dur", V("43200000000000")>> >>,
              <<"T#-1.5MS", <<"Dur", V("-1500000")>> >>, <<"T#1_0s", <<"Dur", V("10000000000")>> >> >>,
  date |-> << <<"D#2024-02-29", <<"Date", V("2024"), V("2"), V("29")>> >>, <<"DATE#1999-12-31", <<"Date", V("1999"), V("12"), V("31")>> >>,
              <<"d#2000-01-01", <<"Date", V("2000"), V("1"), V("1")>> >> >>,
  tod  |-> << <<"TOD#23:59:58", <<"Tod", V("23"), V("59"), V("58"), V("0")>> >>,
              <<"TIME_OF_DAY#01:02:03", <<"Tod", V("1"), V("2"), V("3"), V("0")>> >>,
              <<"TOD#10:11:12.5", <<"Tod", V("10"), V("11"), V("12"), V("5")>> >>, <<"tod#00:00:00", <<"Tod", V("0"), V("0"), V("0"), V("0")>> >> >>,
  dt   |-> << <<"DT#2001-02-03-04:05:06", Dt("2001", "2", "3", "4", "5", "6")>>,
              <<"DATE_AND_TIME#1984-06-25-15:36:55", Dt("1984", "6", "25", "15", "36", "55")>>,
              <<"DT#2010-10-10-10:10:10.25", DtF("2010", "10", "10", "10", "10", "10", "25")>> >>,
  bits |-> << <<"WORD#16#FFFF", <<"Bits", V("WORD"), V("65535")>> >>, <<"BYTE#2#1", <<"Bits", V("BYTE"), V("1")>> >>,
              <<"DWORD#7", <<"Bits", V("DWORD"), V("7")>> >>, <<"LWORD#16#A_B", <<"Bits", V("LWORD"), V("171")>> >>,
              <<"BYTE#8#17", <<"Bits", V("BYTE"), V("15")>> >>, <<"WORD#0", <<"Bits", V("WORD"), V("0")>> >> >>,
  addr |-> << <<"%IX1.2", Addr("I", "X", <<"L", V("1"), V("2")>>)>>, <<"%QW4", Addr("Q", "W", <<"L", V("4")>>)>>,
              <<"%MD0", Addr("M", "D", <<"L", V("0")>>)>>, <<"%IB3", Addr("I", "B", <<"L", V("3")>>)>>,
              <<"%ML7", Addr("M", "L", <<"L", V("7")>>)>>, <<"%I5", Addr("I", "-", <<"L", V("5")>>)>>,
              <<"%IX1.2.3", Addr("I", "X", <<"L", V("1"), V("2"), V("3")>>)>>, <<"%QB10.20", Addr("Q", "B", <<"L", V("10"), V("20")>>)>>,
              <<"%mx0", Addr("M", "X", <<"L", V("0")>>)>> >>,
  iaddr |-> << <<"%I*", Addr("I", "-", <<"L">>)>>, <<"%Q*", Addr("Q", "-", <<"L">>)>>, <<"%M*", Addr("M", "-", <<"L">>)>> >>,
  etype |-> << <<"INT", V("INT")>>, <<"BOOL", V("BOOL")>>, <<"REAL", V("REAL")>>, <<"TIME", V("TIME")>>, <<"DWORD", V("DWORD")>>,
               <<"SINT", V("SINT")>>, <<"LREAL", V("LREAL")>>, <<"DATE", V("DATE")>>, <<"TOD", V("TIME_OF_DAY")>>,
               <<"DT", V("DATE_AND_TIME")>>, <<"ULINT", V("ULINT")>>, <<"BYTE", V("BYTE")>>, <<"DINT", V("DINT")>>,
               <<"LINT", V("LINT")>>, <<"USINT", V("USINT")>>, <<"UINT", V("UINT")>>, <<"UDINT", V("UDINT")>>,
               <<"WORD", V("WORD")>>, <<"LWORD", V("LWORD")>>, <<"TIME_OF_DAY", V("TIME_OF_DAY")>>,
               <<"DATE_AND_TIME", V("DATE_AND_TIME")>>, <<"STRING", V("STRING")>>, <<"WSTRING", V("WSTRING")>> >>,
  itype |-> << <<"INT", V("INT")>>, <<"USINT", V("USINT")>>, <<"DINT", V("DINT")>>, <<"ULINT", V("ULINT")>>,
               <<"SINT", V("SINT")>>, <<"UINT", V("UINT")>>, <<"LINT", V("LINT")>>, <<"UDINT", V("UDINT")>> >>
]

BinOp(sym, op, operand, tail) == Pr("op:" \o op, 1, <<T(sym), PV(op), N(operand), R("Bin", 3), N(tail)>>)

---------------------------------------------------------------------------
(* B.3.1 Expressions - the stratified grammar; every level is  operand { operator operand }  and the
   reduce after each operand folds to the left *)
ExprProds == [
  expr    |-> { Pr("", 0, <<N("xor"), N("or_t")>>) },
  or_t    |-> { Eps, BinOp("OR", "OR", "xor", "or_t") },
  xor     |-> { Pr("", 0, <<N("and"), N("xor_t")>>) },
  xor_t   |-> { Eps, BinOp("XOR", "XOR", "and", "xor_t") },
  and     |-> { Pr("", 0, <<N("cmp"), N("and_t")>>) },
  and_t   |-> { Eps, BinOp("AND", "AND", "cmp", "and_t"), BinOp("&", "AND", "cmp", "and_t") },
  cmp     |-> { Pr("", 0, <<N("equ"), N("cmp_t")>>) },
  cmp_t   |-> { Eps, BinOp("=", "=", "equ", "cmp_t"), BinOp("<>", "<>", "equ", "cmp_t") },
  equ     |-> { Pr("", 0, <<N("add"), N("equ_t")>>) },
  equ_t   |-> { Eps, BinOp("<", "<", "add", "equ_t"), BinOp(">", ">", "add", "equ_t"),
                BinOp("<=", "<=", "add", "equ_t"), BinOp(">=", ">=", "add", "equ_t") },
  add     |-> { Pr("", 0, <<N("term"), N("add_t")>>) },
  add_t   |-> { Eps, BinOp("+", "+", "term", "add_t"), BinOp("-", "-", "term", "add_t") },
  term    |-> { Pr("", 0, <<N("power"), N("term_t")>>) },
  term_t  |-> { Eps, BinOp("*", "*", "power", "term_t"), BinOp("/", "/", "power", "term_t"),
                BinOp("MOD", "MOD", "power", "term_t") },
  power   |-> { Pr("", 0, <<N("unary"), N("power_t")>>) },
  power_t |-> { Eps, BinOp("**", "**", "unary", "power_t") },
  unary   |-> { Pr("", 0, <<N("primary")>>),
                Pr("un:-", 1, <<T("-"), PV("-"), N("primary_nolit"), R("Un", 2)>>),
                Pr("un:NOT", 1, <<T("NOT"), PV("NOT"), N("primary"), R("Un", 2)>>) },
  \* a minus sign before a numeric literal is the sign of the literal (B.1.2.1), so the unary minus
  \* is generated only before the other primaries
  primary_nolit |-> { Pr("", 0, <<N("variable")>>),
                      Pr("prim:paren", 1, <<T("("), N("expr"), T(")"), R("Paren", 1)>>),
                      Pr("prim:call", 1, <<ID, T("("), N("params"), T(")"), R("Call", 2)>>) },
  primary |-> { Pr("", 0, <<N("variable")>>),
                Pr("prim:const", 0, <<N("constant")>>),
                Pr("prim:paren", 1, <<T("("), N("expr"), T(")"), R("Paren", 1)>>),
                Pr("prim:call", 1, <<ID, T("("), N("params"), T(")"), R("Call", 2)>>) },
  constant |-> { Pr("const:int", 0, <<L("int")>>), Pr("const:sint", 1, <<L("sint")>>), Pr("const:tint", 1, <<L("tint")>>),
                 Pr("const:real", 1, <<L("real")>>), Pr("const:bool", 1, <<L("bool")>>), Pr("const:str", 1, <<L("str")>>),
                 Pr("const:wstr", 1, <<L("wstr")>>), Pr("const:dur", 1, <<L("dur")>>), Pr("const:date", 1, <<L("date")>>),
                 Pr("const:tod", 1, <<L("tod")>>), Pr("const:dt", 1, <<L("dt")>>), Pr("const:bits", 1, <<L("bits")>>) },
  \* B.1.4 variables
  variable |-> { Pr("", 0, <<ID, R("Ref", 1), N("var_t")>>),
                 Pr("var:direct", 1, <<L("addr")>>) },
  var_t    |-> { Eps,
                 Pr("var:field", 1, <<T("."), ID, R("Field", 2), N("var_t")>>),
                 Pr("var:index", 1, <<T("["), Nil, N("expr"), S, N("subs_r"), T("]"), R("Index", 2), N("var_t")>>) },
  subs_r   |-> { Eps, Pr("var:index2", 1, <<T(","), N("expr"), S, N("subs_r")>>) },
  \* B.3.2.2 parameter assignments (function calls and function block invocations)
  params   |-> { Pr("", 0, <<Nil>>), Pr("", 0, <<Nil, N("param"), S, N("params_r")>>) },
  params_r |-> { Eps, Pr("param:more", 1, <<T(","), N("param"), S, N("params_r")>>) },
  param    |-> { Pr("param:pos", 0, <<N("expr"), R("Pos", 1)>>),
                 Pr("param:in", 1, <<ID, T(":="), N("expr"), R("In", 2)>>),
                 Pr("param:out", 1, <<ID, T("=>"), N("variable"), R("Out", 2)>>),
                 Pr("param:outnot", 1, <<T("NOT"), ID, T("=>"), N("variable"), R("OutNot", 2)>>) }
]

(* B.3.2 Statements *)
StmtProds == [
  stmts1  |-> { Pr("", 0, <<Nil, N("stmt"), S, T(";"), N("stmts_r")>>) },
  stmts_r |-> { Eps, Pr("stmt:more", 1, <<N("stmt"), S, T(";"), N("stmts_r")>>),
                \* "dg:" = accepted by the parser although it is not a sentence of IEC 61131-3 (2nd ed.): outside C01 ("well-formed
                \* source text"), inside C10 ("every source the parser accepts"), C04, C05 and C08
                Pr("dg:emptystmt", 1, <<T(";"), N("stmts_r")>>) },
  \* a statement list that may also be a single empty statement (bodies of control structures and functions)
  stmts1e |-> { Pr("", 0, <<N("stmts1")>>), Pr("dg:onlyempty", 1, <<Nil, T(";")>>) },
  \* ... or nothing at all (THEN branch)
  stmts1n |-> { Pr("", 0, <<N("stmts1e")>>), Pr("dg:nothing", 1, <<Nil>>) },
  stmt    |-> { Pr("stmt:assign", 0, <<N("variable"), T(":="), N("expr"), R("Assign", 2)>>),
                Pr("stmt:fbcall", 1, <<ID, T("("), N("params"), T(")"), R("FbCall", 2)>>),
                Pr("stmt:return", 1, <<T("RETURN"), R("Return", 0)>>),
                Pr("stmt:exit", 1, <<T("EXIT"), R("Exit", 0)>>),
                Pr("stmt:if", 1, <<T("IF"), N("expr"), T("THEN"), N("stmts1n"), Nil, N("elsifs"), N("else_opt"), T("END_IF"), R("If", 4)>>),
                Pr("stmt:case", 1, <<T("CASE"), N("expr"), T("OF"), Nil, N("case_el"), S, N("case_els"), N("else_opt"), T("END_CASE"), R("Case", 3)>>),
                Pr("stmt:for", 1, <<T("FOR"), ID, T(":="), N("expr"), T("TO"), N("expr"), N("by_opt"), T("DO"), N("stmts1e"), T("END_FOR"), R("For", 5)>>),
                Pr("stmt:while", 1, <<T("WHILE"), N("expr"), T("DO"), N("stmts1e"), T("END_WHILE"), R("While", 2)>>),
                Pr("stmt:repeat", 1, <<T("REPEAT"), N("stmts1e"), T("UNTIL"), N("expr"), T("END_REPEAT"), R("Repeat", 2)>>) },
  elsifs   |-> { Eps, Pr("if:elsif", 1, <<T("ELSIF"), N("expr"), T("THEN"), N("stmts1e"), R("Elsif", 2), S, N("elsifs")>>) },
  else_opt |-> { Pr("", 0, <<Nil>>), Pr("else", 1, <<T("ELSE"), N("stmts1e")>>) },
  by_opt   |-> { Pr("", 0, <<None>>), Pr("for:by", 1, <<T("BY"), N("expr")>>) },
  case_els |-> { Eps, Pr("case:more", 1, <<N("case_el"), S, N("case_els")>>) },
  case_el  |-> { Pr("", 0, <<Nil, N("case_sel"), S, N("case_sels"), T(":"), N("stmts1e"), R("CaseEl", 2)>>) },
  case_sels |-> { Eps, Pr("case:sel2", 1, <<T(","), N("case_sel"), S, N("case_sels")>>) },
  case_sel |-> { Pr("case:int", 0, <<L("pint")>>),
                 Pr("case:negint", 1, <<L("nint")>>),
                 Pr("case:range", 1, <<L("sint"), T(".."), L("sint"), R("Range", 2)>>),
                 Pr("case:enum", 1, <<None, ID, R("EnumVal", 2)>>),
                 Pr("case:tenum", 1, <<ID, Tg("#"), IDg, R("EnumVal", 2)>>) }
]


(* B.1.3 Data types: the eight TYPE declaration forms *)
DeclProds == [
  tdecls_r |-> { Eps, Pr("type:more", 1, <<N("tdecl"), S, T(";"), N("tdecls_r")>>) },
  tdecl    |-> { Pr("", 0, <<ID, T(":"), N("tspec"), R("TypeDecl", 2)>>) },
  tspec    |-> { Pr("type:enum", 0, <<T("("), Nil, N("enumval"), S, N("enumvals_r"), T(")"), N("enum_init"), R("EnumInline", 2)>>),
                 Pr("type:enumref", 1, <<ID, T(":="), N("enumval"), R("TRef", 2)>>),
                 Pr("type:subrange", 1, <<L("itype"), T("("), L("sint"), T(".."), L("sint"), T(")"), N("sint_init"), R("SubrInline", 4)>>),
                 Pr("type:simple", 1, <<L("etype"), T(":="), N("constant"), R("TRef", 2)>>),
                 Pr("type:simpleref", 1, <<ID, T(":="), N("constant"), R("TRef", 2)>>),
                 Pr("type:array", 1, <<N("arrspec"), N("arr_init"), R("ArrInline", 3)>>),
                 Pr("type:struct", 1, <<T("STRUCT"), Nil, N("selem"), S, T(";"), N("selems_r"), T("END_STRUCT"), R("StructDecl", 1)>>),
                 Pr("type:structinit", 1, <<ID, T(":="), N("structinit"), R("StructInit", 2)>>),
                 Pr("type:string", 1, <<T("STRING"), PV("STRING"), T("["), L("uint"), T("]"), N("str_init"), R("StrSpec", 3)>>),
                 Pr("type:wstring", 1, <<T("WSTRING"), PV("WSTRING"), T("["), L("uint"), T("]"), N("wstr_init"), R("StrSpec", 3)>>),
                 Pr("type:stringp", 1, <<T("STRING"), PV("STRING"), T("("), L("uint"), T(")"), N("str_init"), R("StrSpec", 3)>>),
                 Pr("type:wstringp", 1, <<T("WSTRING"), PV("WSTRING"), T("("), L("uint"), T(")"), N("wstr_init"), R("StrSpec", 3)>>),
                 Pr("type:latebound", 1, <<ID, None, R("TRef", 2)>>),
                 Pr("type:elem", 1, <<L("etype"), None, R("TRef", 2)>>) },
  enumval    |-> { Pr("", 0, <<None, ID, R("EnumVal", 2)>>), Pr("enum:typed", 1, <<ID, Tg("#"), IDg, R("EnumVal", 2)>>) },
  enumvals_r |-> { Eps, Pr("enum:more", 1, <<T(","), N("enumval"), S, N("enumvals_r")>>) },
  enum_init  |-> { Pr("", 0, <<None>>), Pr("enum:init", 1, <<T(":="), N("enumval")>>) },
  sint_init  |-> { Pr("", 0, <<None>>), Pr("subrange:init", 1, <<T(":="), L("sint")>>) },
  str_init   |-> { Pr("", 0, <<None>>), Pr("string:init", 1, <<T(":="), L("str")>>) },
  wstr_init  |-> { Pr("", 0, <<None>>), Pr("string:init", 1, <<T(":="), L("wstr")>>) },
  arrspec    |-> { Pr("", 0, <<T("ARRAY"), T("["), Nil, N("range"), S, N("ranges_r"), T("]"), T("OF"), N("typename")>>) },
  range      |-> { Pr("", 0, <<L("sint"), T(".."), L("sint"), R("Range", 2)>>) },
  ranges_r   |-> { Eps, Pr("array:dim2", 1, <<T(","), N("range"), S, N("ranges_r")>>) },
  typename   |-> { Pr("", 0, <<L("etype")>>), Pr("tref:derived", 0, <<ID>>) },
  arr_init   |-> { Pr("", 0, <<Nil>>), Pr("array:init", 1, <<T(":="), N("arr_initv")>>) },
  arr_initv  |-> { Pr("", 0, <<T("["), Nil, N("arr_el"), S, N("arr_els_r"), T("]")>>) },
  arr_els_r  |-> { Eps, Pr("array:init2", 1, <<T(","), N("arr_el"), S, N("arr_els_r")>>) },
  arr_el     |-> { Pr("", 0, <<N("constant")>>),
                   Pr("array:enumel", 1, <<N("enumval")>>),
                   Pr("array:repeat", 1, <<L("uint"), T("("), N("arr_el1"), T(")"), R("Rep", 2)>>),
                   Pr("array:repeat0", 1, <<L("uint"), T("("), None, T(")"), R("Rep", 2)>>) },
  arr_el1    |-> { Pr("", 0, <<N("constant")>>), Pr("array:enumel", 1, <<N("enumval")>>) },
  structinit |-> { Pr("", 0, <<T("("), Nil, N("elinit"), S, N("elinits_r"), T(")")>>) },
  elinits_r  |-> { Eps, Pr("structinit:more", 1, <<T(","), N("elinit"), S, N("elinits_r")>>) },
  elinit     |-> { Pr("", 0, <<ID, T(":="), N("elval"), R("ElInit", 2)>>) },
  elval      |-> { Pr("", 0, <<N("constant")>>),
                   Pr("structinit:enum", 1, <<N("enumval")>>),
                   Pr("structinit:array", 1, <<N("arr_initv"), R("ArrInit", 1)>>),
                   Pr("structinit:nested", 1, <<N("structinit"), R("StructVal", 1)>>) },
  selems_r   |-> { Eps, Pr("struct:more", 1, <<N("selem"), S, T(";"), N("selems_r")>>) },
  selem      |-> { Pr("", 0, <<ID, T(":"), N("selem_spec"), R("Elem", 2)>>) },
  selem_spec |-> { Pr("selem:elem", 0, <<L("etype"), None, R("TRef", 2)>>),
                   Pr("selem:ref", 1, <<ID, None, R("TRef", 2)>>),
                   Pr("selem:eleminit", 1, <<L("etype"), T(":="), N("constant"), R("TRef", 2)>>),
                   Pr("selem:refinit", 1, <<ID, T(":="), N("constant"), R("TRef", 2)>>),
                   Pr("selem:refenum", 1, <<ID, T(":="), N("enumval"), R("TRef", 2)>>),
                   Pr("selem:enum", 1, <<T("("), Nil, N("enumval"), S, N("enumvals_r"), T(")"), N("enum_init"), R("EnumInline", 2)>>),
                   Pr("selem:subrange", 1, <<L("itype"), T("("), L("sint"), T(".."), L("sint"), T(")"), N("sint_init"), R("SubrInline", 4)>>),
                   Pr("selem:array", 1, <<N("arrspec"), N("arr_init"), R("ArrInline", 3)>>),
                   Pr("selem:structinit", 1, <<ID, T(":="), N("structinit"), R("StructInit", 2)>>),
                   Pr("selem:string", 1, <<T("STRING"), PV("STRING"), None, N("str_init"), R("StrSpec", 3)>>),
                   Pr("selem:wstring", 1, <<T("WSTRING"), PV("WSTRING"), None, N("wstr_init"), R("StrSpec", 3)>>) }
]

(* B.1.4.3 variable declarations, B.1.5 program organisation units *)
PouProds == [
  names    |-> { Pr("", 0, <<Nil, ID, S, N("names_r")>>) },
  names_r  |-> { Eps, Pr("names:more", 1, <<T(","), ID, S, N("names_r")>>) },
  group    |-> { Pr("", 0, <<N("names"), T(":"), N("vspec"), R("Group", 2)>>) },
  groups_r |-> { Eps, Pr("block:more", 1, <<N("group"), S, T(";"), N("groups_r")>>) },
  \* var_init_decl: what may follow the colon in VAR / VAR_INPUT / VAR_OUTPUT blocks
  vspec    |-> { Pr("vspec:elem", 0, <<L("etype"), None, R("TRef", 2)>>),
                 Pr("vspec:ref", 1, <<ID, None, R("TRef", 2)>>),
                 Pr("vspec:eleminit", 1, <<L("etype"), T(":="), N("constant"), R("TRef", 2)>>),
                 Pr("vspec:refinit", 1, <<ID, T(":="), N("constant"), R("TRef", 2)>>),
                 Pr("vspec:refenum", 1, <<ID, T(":="), N("enumval"), R("TRef", 2)>>),
                 Pr("vspec:enum", 1, <<T("("), Nil, N("enumval"), S, N("enumvals_r"), T(")"), N("enum_init"), R("EnumInline", 2)>>),
                 Pr("vspec:array", 1, <<N("arrspec"), N("arr_init"), R("ArrInline", 3)>>),
                 Pr("vspec:structinit", 1, <<ID, T(":="), N("structinit"), R("StructInit", 2)>>),
                 Pr("vspec:string", 1, <<T("STRING"), PV("STRING"), N("str_len"), N("str_init"), R("StrSpec", 3)>>),
                 Pr("vspec:wstring", 1, <<T("WSTRING"), PV("WSTRING"), N("str_len"), N("wstr_init"), R("StrSpec", 3)>>) },
  str_len  |-> { Pr("", 0, <<None>>), Pr("string:len", 1, <<T("["), L("uint"), T("]")>>) },
  \* var1_declaration etc.: what may follow the colon in VAR_IN_OUT blocks (no initial values)
  vspec_io |-> { Pr("vspec:elem", 0, <<L("etype"), None, R("TRef", 2)>>),
                 Pr("vspec:ref", 1, <<ID, None, R("TRef", 2)>>),
                 Pr("vspecio:enum", 1, <<T("("), Nil, N("enumval"), S, N("enumvals_r"), T(")"), None, R("EnumInline", 2)>>),
                 Pr("vspecio:subrange", 1, <<L("itype"), T("("), L("sint"), T(".."), L("sint"), T(")"), None, R("SubrInline", 4)>>),
                 Pr("vspecio:array", 1, <<N("arrspec"), Nil, R("ArrInline", 3)>>),
                 Pr("vspecio:string", 1, <<T("STRING"), PV("STRING"), N("str_len"), None, R("StrSpec", 3)>>),
                 Pr("vspecio:wstring", 1, <<T("WSTRING"), PV("WSTRING"), N("str_len"), None, R("StrSpec", 3)>>) },
  group_io |-> { Pr("", 0, <<N("names"), T(":"), N("vspec_io"), R("Group", 2)>>) },
  groups_io_r |-> { Eps, Pr("block:more", 1, <<N("group_io"), S, T(";"), N("groups_io_r")>>) },
  \* external_declaration: name : simple_specification
  group_ext |-> { Pr("", 0, <<Nil, ID, S, T(":"), N("typename"), None, R("TRef", 2), R("Group", 2)>>) },
  groups_ext_r |-> { Eps, Pr("block:more", 1, <<N("group_ext"), S, T(";"), N("groups_ext_r")>>) },
  \* input_declaration: var_init_decl | edge_declaration
  in_decl  |-> { Pr("", 0, <<N("group")>>),
                 Pr("in:redge", 1, <<N("names"), T(":"), T("BOOL"), T("R_EDGE"), PV("R_EDGE"), R("Edge", 2)>>),
                 Pr("in:fedge", 1, <<N("names"), T(":"), T("BOOL"), T("F_EDGE"), PV("F_EDGE"), R("Edge", 2)>>) },
  in_decls_r |-> { Eps, Pr("block:more", 1, <<N("in_decl"), S, T(";"), N("in_decls_r")>>) },
  q_ret    |-> { Pr("", 0, <<None>>), Pr("q:retain", 1, <<T("RETAIN"), PV("RETAIN")>>), Pr("q:non_retain", 1, <<T("NON_RETAIN"), PV("NON_RETAIN")>>) },
  q_const  |-> { Pr("", 0, <<None>>), Pr("q:constant", 1, <<T("CONSTANT"), PV("CONSTANT")>>) },
  q_var    |-> { Pr("", 0, <<None>>), Pr("q:constant", 1, <<T("CONSTANT"), PV("CONSTANT")>>),
                 Pr("q:retain", 1, <<T("RETAIN"), PV("RETAIN")>>), Pr("q:non_retain", 1, <<T("NON_RETAIN"), PV("NON_RETAIN")>>) },
  blk_input  |-> { Pr("blk:input", 0, <<T("VAR_INPUT"), PV("VAR_INPUT"), N("q_ret"), Nil, N("in_decl"), S, T(";"), N("in_decls_r"), T("END_VAR"), R("Block", 3)>>) },
  blk_output |-> { Pr("blk:output", 0, <<T("VAR_OUTPUT"), PV("VAR_OUTPUT"), N("q_ret"), Nil, N("group"), S, T(";"), N("groups_r"), T("END_VAR"), R("Block", 3)>>) },
  blk_inout  |-> { Pr("blk:inout", 0, <<T("VAR_IN_OUT"), PV("VAR_IN_OUT"), None, Nil, N("group_io"), S, T(";"), N("groups_io_r"), T("END_VAR"), R("Block", 3)>>) },
  blk_ext    |-> { Pr("blk:external", 0, <<T("VAR_EXTERNAL"), PV("VAR_EXTERNAL"), N("q_const"), Nil, N("group_ext"), S, T(";"), N("groups_ext_r"), T("END_VAR"), R("Block", 3)>>) },
  blk_var    |-> { Pr("blk:var", 0, <<T("VAR"), PV("VAR"), N("q_var"), Nil, N("group"), S, T(";"), N("groups_r"), T("END_VAR"), R("Block", 3)>>) },
  \* incompletely located variables (FB, PROGRAM):  VAR [RETAIN|NON_RETAIN] name AT %I* : var_spec
  blk_incompl |-> { Pr("blk:incompl", 0, <<T("VAR"), PV("VAR"), N("q_ret"), Nil, N("incompl"), S, T(";"), N("incompls_r"), T("END_VAR"), R("Block", 3)>>) },
  incompl    |-> { Pr("", 0, <<ID, T("AT"), L("iaddr"), T(":"), N("vspec_io"), R("LocVar", 3)>>) },
  incompls_r |-> { Eps, Pr("block:more", 1, <<N("incompl"), S, T(";"), N("incompls_r")>>) },
  \* located variables (PROGRAM):  VAR [CONSTANT|RETAIN|NON_RETAIN] [name] AT %IX1.2 : located_var_spec_init
  blk_located |-> { Pr("blk:located", 0, <<T("VAR"), PV("VAR"), N("q_var"), Nil, N("located"), S, T(";"), N("locateds_r"), T("END_VAR"), R("Block", 3)>>) },
  located    |-> { Pr("", 0, <<ID, T("AT"), L("addr"), T(":"), N("loc_spec"), R("LocVar", 3)>>),
                   Pr("located:anon", 1, <<None, T("AT"), L("addr"), T(":"), N("loc_spec"), R("LocVar", 3)>>) },
  locateds_r |-> { Eps, Pr("block:more", 1, <<N("located"), S, T(";"), N("locateds_r")>>) },
  loc_spec   |-> { Pr("vspec:elem", 0, <<L("etype"), None, R("TRef", 2)>>),
                   Pr("vspec:eleminit", 1, <<L("etype"), T(":="), N("constant"), R("TRef", 2)>>),
                   Pr("vspec:ref", 1, <<ID, None, R("TRef", 2)>>),
                   Pr("vspec:refinit", 1, <<ID, T(":="), N("constant"), R("TRef", 2)>>) },
  \* function_var_decls: VAR [CONSTANT] var2_init_decl ; ... END_VAR
  \* (var2_init_decl: the parser implements the var1_init_decl alternative only; arrays, structures and strings
  \*  in the VAR block of a FUNCTION are outside the supported subset)
  blk_fvar   |-> { Pr("blk:fvar", 0, <<T("VAR"), PV("VAR"), N("q_const"), Nil, N("fgroup"), S, T(";"), N("fgroups_r"), T("END_VAR"), R("Block", 3)>>) },
  fgroup     |-> { Pr("", 0, <<N("names"), T(":"), N("vspec_f"), R("Group", 2)>>) },
  fgroups_r  |-> { Eps, Pr("block:more", 1, <<N("fgroup"), S, T(";"), N("fgroups_r")>>) },
  vspec_f    |-> { Pr("vspec:elem", 0, <<L("etype"), None, R("TRef", 2)>>),
                   Pr("vspec:ref", 1, <<ID, None, R("TRef", 2)>>),
                   Pr("vspec:eleminit", 1, <<L("etype"), T(":="), N("constant"), R("TRef", 2)>>),
                   Pr("vspec:refinit", 1, <<ID, T(":="), N("constant"), R("TRef", 2)>>),
                   Pr("vspec:refenum", 1, <<ID, T(":="), N("enumval"), R("TRef", 2)>>),
                   Pr("vspec:enum", 1, <<T("("), Nil, N("enumval"), S, N("enumvals_r"), T(")"), N("enum_init"), R("EnumInline", 2)>>) },
  fb_blocks  |-> { Eps, Pr("pou:block", 1, <<N("fb_block"), S, N("fb_blocks")>>) },
  fb_block   |-> { Pr("", 0, <<N("blk_input")>>), Pr("", 0, <<N("blk_output")>>), Pr("", 0, <<N("blk_inout")>>),
                   Pr("", 0, <<N("blk_ext")>>), Pr("", 0, <<N("blk_var")>>), Pr("", 0, <<N("blk_incompl")>>) },
  pg_blocks  |-> { Eps, Pr("pou:block", 1, <<N("pg_block"), S, N("pg_blocks")>>) },
  pg_block   |-> { Pr("", 0, <<N("blk_input")>>), Pr("", 0, <<N("blk_output")>>), Pr("", 0, <<N("blk_inout")>>),
                   Pr("", 0, <<N("blk_ext")>>), Pr("", 0, <<N("blk_var")>>), Pr("", 0, <<N("blk_incompl")>>),
                   Pr("", 0, <<N("blk_located")>>), Pr("", 0, <<N("blk_access")>>) },
  fn_blocks  |-> { Eps, Pr("pou:block", 1, <<N("fn_block"), S, N("fn_blocks")>>) },
  fn_block   |-> { Pr("", 0, <<N("blk_input")>>), Pr("", 0, <<N("blk_output")>>), Pr("", 0, <<N("blk_inout")>>), Pr("", 0, <<N("blk_fvar")>>) },
  pou_body   |-> { Pr("body:empty", 0, <<Nil>>), Pr("body:stmts", 0, <<N("stmts1")>>), Pr("body:sfc", 1, <<N("sfc_body")>>) },
  fb      |-> { Pr("pou:fb", 0, <<T("FUNCTION_BLOCK"), ID, Nil, N("fb_blocks"), N("pou_body"), T("END_FUNCTION_BLOCK"), R("FB", 3)>>) },
  prog    |-> { Pr("pou:program", 0, <<T("PROGRAM"), ID, Nil, N("pg_blocks"), N("pou_body"), T("END_PROGRAM"), R("Prog", 3)>>) },
  func    |-> { Pr("pou:function", 0, <<T("FUNCTION"), ID, T(":"), N("typename"), Nil, N("fn_blocks"), N("stmts1e"), T("END_FUNCTION"), R("Func", 4)>>) }
]


(* B.1.6 Sequential function chart elements *)
SfcProds == [
  sfc_body   |-> { Pr("", 0, <<Nil, N("network"), S, N("networks_r"), R("Sfc", 1)>>) },
  networks_r |-> { Eps, Pr("sfc:net2", 1, <<N("network"), S, N("networks_r")>>) },
  network    |-> { Pr("", 0, <<N("init_step"), Nil, N("sfc_elems"), R("Net", 2)>>) },
  init_step  |-> { Pr("sfc:initstep", 0, <<T("INITIAL_STEP"), ID, T(":"), Nil, N("iassocs"), T("END_STEP"), R("Step", 2)>>) },
  step       |-> { Pr("sfc:step", 0, <<T("STEP"), ID, T(":"), Nil, N("assocs"), T("END_STEP"), R("Step", 2)>>) },
  assocs     |-> { Eps, Pr("sfc:assoc", 1, <<N("assoc"), S, T(";"), N("assocs")>>) },
  iassocs    |-> { Eps, Pr("sfc:iassoc", 1, <<N("assoc"), S, T(";"), N("iassocs")>>) },
  assoc      |-> { Pr("", 0, <<ID, T("("), N("aqual"), Nil, N("indicators"), T(")"), R("Assoc", 3)>>) },
  aqual      |-> { Pr("", 0, <<None>>),
                   Pr("aq:N", 1, <<T("N"), PV("N"), R("Q", 1)>>), Pr("aq:R", 1, <<T("R"), PV("R"), R("Q", 1)>>),
                   Pr("aq:S", 1, <<T("S"), PV("S"), R("Q", 1)>>), Pr("aq:P", 1, <<T("P"), PV("P"), R("Q", 1)>>),
                   Pr("aq:L", 1, <<T("L"), PV("L"), T(","), N("atime"), R("QT", 2)>>),
                   Pr("aq:D", 1, <<T("D"), PV("D"), T(","), N("atime"), R("QT", 2)>>),
                   Pr("aq:SD", 1, <<T("SD"), PV("SD"), T(","), N("atime"), R("QT", 2)>>),
                   Pr("aq:DS", 1, <<T("DS"), PV("DS"), T(","), N("atime"), R("QT", 2)>>),
                   Pr("aq:SL", 1, <<T("SL"), PV("SL"), T(","), N("atime"), R("QT", 2)>>),
                   \* the parser reads P1 / P0 with a time (the standard has them without)
                   Pr("dg:aq:P1", 1, <<T("P1"), PV("P1"), T(","), N("atime"), R("QT", 2)>>),
                   Pr("dg:aq:P0", 1, <<T("P0"), PV("P0"), T(","), N("atime"), R("QT", 2)>>) },
  atime      |-> { Pr("", 0, <<L("dur")>>), Pr("aq:timevar", 1, <<ID, R("TimeVar", 1)>>) },
  indicators |-> { Eps, Pr("sfc:indicator", 1, <<T(","), ID, S, N("indicators")>>) },
  sfc_elems  |-> { Eps, Pr("sfc:elem", 1, <<N("sfc_elem"), S, N("sfc_elems")>>) },
  sfc_elem   |-> { Pr("", 0, <<N("step")>>), Pr("", 0, <<N("transition")>>), Pr("", 0, <<N("action")>>) },
  transition |-> { Pr("sfc:transition", 0, <<T("TRANSITION"), N("tname"), N("tprio"), T("FROM"), N("steps"), T("TO"), N("steps"),
                                              T(":="), N("expr"), T(";"), T("END_TRANSITION"), R("Trans", 5)>>) },
  tname      |-> { Pr("", 0, <<None>>), Pr("trans:name", 1, <<ID>>) },
  tprio      |-> { Pr("", 0, <<None>>), Pr("trans:priority", 1, <<T("("), T("PRIORITY"), T(":="), L("uint"), T(")")>>) },
  steps      |-> { Pr("", 0, <<Nil, ID, S>>),
                   Pr("trans:steps2", 1, <<T("("), Nil, ID, S, T(","), ID, S, N("steps_r"), T(")")>>) },
  steps_r    |-> { Eps, Pr("trans:steps3", 1, <<T(","), ID, S, N("steps_r")>>) },
  action     |-> { Pr("sfc:action", 0, <<T("ACTION"), ID, T(":"), N("pou_body"), T("END_ACTION"), R("Action", 2)>>) }
]

(* B.1.7 Configuration elements *)
ConfigProds == [
  config     |-> { Pr("config", 0, <<T("CONFIGURATION"), ID, Nil, N("gvars_opt"), N("resource"), Nil, N("varconfig_opt"),
                                     T("END_CONFIGURATION"), R("Config", 4)>>) },
  gvars_opt  |-> { Eps, Pr("config:globals", 1, <<N("blk_global"), S>>) },
  blk_global |-> { Pr("blk:global", 0, <<T("VAR_GLOBAL"), PV("VAR_GLOBAL"), N("q_glob"), Nil, N("gdecl"), S, T(";"), N("gdecls_r"),
                                         T("END_VAR"), R("Block", 3)>>) },
  q_glob     |-> { Pr("", 0, <<None>>), Pr("q:constant", 1, <<T("CONSTANT"), PV("CONSTANT")>>), Pr("q:retain", 1, <<T("RETAIN"), PV("RETAIN")>>) },
  gdecl      |-> { Pr("", 0, <<N("names"), T(":"), N("loc_spec"), R("Group", 2)>>),
                   Pr("global:located", 1, <<ID, T("AT"), L("addr"), T(":"), N("loc_spec"), R("LocVar", 3)>>),
                   Pr("global:anon", 1, <<None, T("AT"), L("addr"), T(":"), N("loc_spec"), R("LocVar", 3)>>) },
  gdecls_r   |-> { Eps, Pr("block:more", 1, <<N("gdecl"), S, T(";"), N("gdecls_r")>>) },
  resource   |-> { Pr("", 0, <<T("RESOURCE"), ID, T("ON"), ID, Nil, N("gvars_opt"), Nil, N("tasks"), Nil, N("progconf"), S, T(";"),
                               N("progconfs_r"), T("END_RESOURCE"), R("Res", 5)>>) },
  tasks      |-> { Eps, Pr("config:task", 1, <<N("task"), S, T(";"), N("tasks")>>) },
  task       |-> { Pr("", 0, <<T("TASK"), ID, T("("), N("tinterval"), T("PRIORITY"), T(":="), L("uint"), T(")"), R("Task", 3)>>) },
  tinterval  |-> { Pr("", 0, <<None>>), Pr("task:interval", 1, <<T("INTERVAL"), T(":="), L("dur"), T(",")>>) },
  progconfs_r |-> { Eps, Pr("config:prog2", 1, <<N("progconf"), S, T(";"), N("progconfs_r")>>) },
  progconf   |-> { Pr("", 0, <<T("PROGRAM"), N("q_ret"), ID, N("with_opt"), T(":"), ID, Nil, N("pc_elems_opt"), R("ProgConf", 5)>>) },
  with_opt   |-> { Pr("", 0, <<None>>), Pr("progconf:with", 1, <<T("WITH"), ID>>) },
  pc_elems_opt |-> { Eps, Pr("progconf:elems", 1, <<T("("), N("pc_elem"), S, N("pc_elems_r"), T(")")>>) },
  pc_elems_r |-> { Eps, Pr("progconf:elems2", 1, <<T(","), N("pc_elem"), S, N("pc_elems_r")>>) },
  pc_elem    |-> { Pr("progconf:fbtask", 1, <<ID, T("WITH"), ID, R("FbTask", 2)>>),
                   Pr("progconf:source", 0, <<N("symvar"), T(":="), N("pc_src"), R("Src", 2)>>),
                   Pr("progconf:sink", 1, <<N("symvar"), T("=>"), N("pc_sink"), R("Sink", 2)>>) },
  symvar     |-> { Pr("", 0, <<ID, R("Ref", 1), N("var_t")>>) },
  pc_src     |-> { Pr("", 0, <<N("constant")>>),
                   Pr("pcsrc:name", 1, <<ID, R("NameRef", 1)>>),
                   Pr("pcsrc:tenum", 1, <<ID, Tg("#"), IDg, R("EnumVal", 2)>>),
                   Pr("pcsrc:gref", 1, <<ID, Tg("."), IDg, R("GRef2", 2)>>),
                   Pr("pcsrc:direct", 1, <<L("addr")>>) },
  pc_sink    |-> { Pr("pcsink:name", 0, <<ID, R("NameRef", 1)>>),
                   Pr("pcsink:gref", 1, <<ID, Tg("."), IDg, R("GRef2", 2)>>),
                   Pr("pcsink:gref3", 1, <<ID, Tg("."), IDg, Tg("."), IDg, R("GRef2", 3)>>),
                   Pr("pcsink:direct", 1, <<L("addr")>>) },
  varconfig_opt |-> { Eps, Pr("config:varconfig", 1, <<T("VAR_CONFIG"), N("vc"), S, T(";"), N("vcs_r"), T("END_VAR")>>) },
  vcs_r      |-> { Eps, Pr("varconfig:more", 1, <<N("vc"), S, T(";"), N("vcs_r")>>) },
  vc         |-> { Pr("varconfig:fbinit", 0, <<ID, Tg("."), IDg, Tg("."), Nil, IDg, S, N("path_r"), T(":"), ID, T(":="), N("structinit"), R("FbInit", 5)>>),
                   Pr("varconfig:located", 1, <<ID, Tg("."), IDg, Tg("."), Nil, IDg, S, N("path_r"), N("at_opt"), T(":"), N("loc_spec"), R("LocInit", 5)>>) },
  path_r     |-> { Eps, Pr("varconfig:path", 1, <<Tg("."), IDg, S, N("path_r")>>) },
  at_opt     |-> { Pr("", 0, <<None>>), Pr("varconfig:at", 1, <<T("AT"), L("addr")>>) },
  \* B.1.5.3 program access declarations
  blk_access |-> { Pr("blk:access", 0, <<T("VAR_ACCESS"), Nil, N("access"), S, T(";"), N("accesses_r"), T("END_VAR"), R("AccessBlock", 1)>>) },
  access     |-> { Pr("", 0, <<ID, T(":"), N("symvar"), T(":"), N("typename"), N("direction"), R("Access", 4)>>) },
  accesses_r |-> { Eps, Pr("block:more", 1, <<N("access"), S, T(";"), N("accesses_r")>>) },
  direction  |-> { Pr("", 0, <<None>>), Pr("access:ro", 1, <<T("READ_ONLY"), PV("READ_ONLY")>>), Pr("access:rw", 1, <<T("READ_WRITE"), PV("READ_WRITE")>>) }
]

(* B.0 library: sequences of top-level declarations *)
LibProds == [
  library     |-> { Pr("", 0, <<Nil, N("lib_elem"), N("lib_elems_r")>>) },
  lib_elems_r |-> { Eps, Pr("lib:more", 1, <<N("lib_elem"), N("lib_elems_r")>>) },
  lib_elem    |-> { Pr("lib:type", 0, <<T("TYPE"), N("tdecl"), S, T(";"), N("tdecls_r"), T("END_TYPE")>>),
                    Pr("lib:fb", 0, <<N("fb"), S>>), Pr("lib:function", 0, <<N("func"), S>>),
                    Pr("lib:program", 0, <<N("prog"), S>>), Pr("lib:config", 0, <<N("config"), S>>) }
]

(* Wrappers that make a sentence a complete library *)
WrapProds == [
  lib_expr |-> { Pr("", 0, <<Nil, T("FUNCTION_BLOCK"), ID, Nil, Nil, N("variable"), T(":="), N("expr"), R("Assign", 2), S, T(";"),
                             T("END_FUNCTION_BLOCK"), R("FB", 3), S>>) },
  lib_types |-> { Pr("", 0, <<Nil, T("TYPE"), N("tdecl"), S, T(";"), N("tdecls_r"), T("END_TYPE")>>) },
  lib_fb    |-> { Pr("", 0, <<Nil, N("fb"), S>>) },
  lib_prog  |-> { Pr("", 0, <<Nil, N("prog"), S>>) },
  lib_func  |-> { Pr("", 0, <<Nil, N("func"), S>>) },
  lib_sfc   |-> { Pr("", 0, <<Nil, T("FUNCTION_BLOCK"), ID, Nil, N("sfc_body"), T("END_FUNCTION_BLOCK"), R("FB", 3), S>>) },
  lib_config |-> { Pr("", 0, <<Nil, N("config"), S>>) },
  lib_stmt |-> { Pr("", 0, <<Nil, T("FUNCTION_BLOCK"), ID, Nil, N("stmts1"), T("END_FUNCTION_BLOCK"), R("FB", 3), S>>) }
]

Prods == ExprProds @@ StmtProds @@ DeclProds @@ PouProds @@ SfcProds @@ ConfigProds @@ LibProds @@ WrapProds
=============================================================================
