----------------------------- MODULE ScopeTrace -----------------------------
(***************************************************************************)
(* Trace validation of the symbol table operations recorded by the guarded *)
(* hook in analyzer/src/symbol_table.rs against Scope.tla (implementation  *)
(* -> specification; C02, C06: scoping).                                   *)
(*                                                                         *)
(* One unit of the trace is one walk of one user over one library:         *)
(*   walk(table, tid)  op* end                                             *)
(* Each `op` fires the action of Scope.tla with the logged key and the     *)
(* logged result: a find whose result is not membership in the visible     *)
(* names, an exit from the root scope, a declaration of the declaration    *)
(* walk outside a declaration's scope, a walk that ends inside a scope or  *)
(* leaves a name in the root scope have no enabled action - the walk is    *)
(* rejected and recorded in `bad` (then the validation resumes at the next *)
(* walk).                                                                  *)
(***************************************************************************)
EXTENDS Scope, Integers, Json, IOUtils, TLC

Rec == ndJsonDeserialize(IOEnv.TRACE)

VARIABLES l, tid, bad
tvars == <<vars, l, tid, bad>>

TInit == /\ stack = << {} >> /\ user = "decl" /\ nops = 0 /\ lastFind = <<>>
         /\ l = 1 /\ tid = -1 /\ bad = <<>>

IsEv(e) == l <= Len(Rec) /\ Rec[l].ev = e /\ l' = l + 1

TWalk == /\ IsEv("walk")
         /\ stack' = << {} >> /\ user' = Rec[l].table /\ nops' = 0 /\ lastFind' = <<>>
         /\ tid' = Rec[l].tid
         /\ UNCHANGED bad

TOp == /\ IsEv("op")
       /\ LET r == Rec[l]
          IN  CASE r.op = "enter"   -> user = "decl" /\ Enter           \* types are global: the type walk opens no scope
                [] r.op = "exit"    -> Exit
                [] r.op = "add"     -> (user = "decl" => Len(stack) > 1) /\ Add(r.k)
                [] r.op = "try_add" -> TryAdd(r.k, r.r)
                [] r.op = "find"    -> Find(r.k, r.r)
                [] OTHER            -> FALSE
       /\ UNCHANGED <<tid, bad>>

\* the walk is over: every scope that was opened has been left, and the declaration walk left nothing behind
TEnd == /\ IsEv("end")
        /\ Len(stack) = 1
        /\ (user = "decl" => Root = {})
        /\ UNCHANGED <<vars, tid, bad>>

Accept == TWalk \/ TOp \/ TEnd

RECURSIVE NextWalk(_)
NextWalk(j) == IF j > Len(Rec) THEN j ELSE IF Rec[j].ev = "walk" THEN j ELSE NextWalk(j + 1)

Skip == /\ l <= Len(Rec)
        /\ ~ENABLED Accept
        /\ bad' = Append(bad, <<tid, l>>)
        /\ l' = NextWalk(l + 1)
        /\ UNCHANGED <<vars, tid>>

TNext == Accept \/ Skip
TSpec == TInit /\ [][TNext]_tvars

\* the invariants of the design specification, evaluated on every state of the observed walks
TraceInv == RootNeverLeft /\ RootStaysEmpty /\ SiblingsIsolated /\ TypeWalkIsFlat

Verdict == l > Len(Rec) => PrintT(<<"TRACE-VERDICT", Len(Rec), bad>>)
=============================================================================
