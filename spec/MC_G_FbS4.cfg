SPECIFICATION Spec
CONSTANTS
  Start = "lib_fb"
  Fuel = 4
  Quarantine = {}
  Only = {}
  Offsets = {0}
  Allow = {"pou:block", "q:retain", "q:non_retain", "q:constant", "in:redge", "in:fedge", "block:more", "names:more"}
  Emit = TRUE
INVARIANTS OneValue NothingDropped Terminates PrecedenceShape EmitReplay
CHECK_DEADLOCK FALSE
