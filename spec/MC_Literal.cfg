SPECIFICATION Spec
CONSTANTS
  Kinds = {"int", "bits", "real", "dur", "date", "tod", "dt", "str", "addr"}
  Emit = TRUE
INVARIANTS ValueTwoWays LeapSanity EmitReplay
CHECK_DEADLOCK FALSE
