------------------------------ MODULE CliTrace ------------------------------
(***************************************************************************)
(* Trace validation of recorded `ironplcc check | echo | tokenize` runs    *)
(* against Cli.tla (implementation -> specification; C13, C14).            *)
(*                                                                         *)
(* One unit of the trace is one process run:                               *)
(*   run(cmd, args, tid)   the invocation: fires Init's choice             *)
(*   obs(rc, ok, diags)    what the process did: exit status, OK line,     *)
(*                         set of <<code, entry>> parsed from stderr       *)
(* Between the two the specification takes its own steps Enumerate,        *)
(* ReadDecode and Run (they are not observable from outside); `obs` is     *)
(* accepted only in a state the specification can reach from the           *)
(* invocation.  The choice the specification leaves open (which of several *)
(* files is named by a rule that stops at its first hit, which file        *)
(* `tokenize` stops at) is bound by the logged observation.                *)
(* The disk is that of MC_Cli.tla; the argument lists are random and       *)
(* longer than the exhaustive bound of the replay direction.               *)
(***************************************************************************)
EXTENDS MC_Cli, IOUtils

Rec == ndJsonDeserialize(IOEnv.TRACE)

VARIABLES l, tid, bad
tvars == <<vars, l, tid, bad>>

TInit == /\ cmd = "check" /\ args = <<>> /\ enc = [f \in Files |-> "utf8"] /\ verb = 0
         /\ phase = "Idle" /\ entries = {} /\ sources = {} /\ diags = {} /\ okLine = FALSE /\ exit = -1
         /\ l = 1 /\ tid = -1 /\ bad = <<>>

IsEv(e) == l <= Len(Rec) /\ Rec[l].ev = e /\ l' = l + 1

TRun == /\ IsEv("run")
        /\ cmd' = Rec[l].cmd /\ args' = Rec[l].args /\ enc' = enc /\ verb' = (IF "verb" \in DOMAIN Rec[l] THEN Rec[l].verb ELSE 0)
        /\ phase' = "Start" /\ entries' = {} /\ sources' = {} /\ diags' = {} /\ okLine' = FALSE /\ exit' = -1
        /\ tid' = Rec[l].tid
        /\ UNCHANGED bad

\* the specification's own deterministic steps between invocation and observation
TSilent == /\ l <= Len(Rec) /\ Rec[l].ev = "obs"
           /\ phase \in {"Start", "Enumerated"}
           /\ (Enumerate \/ ReadDecode)
           /\ UNCHANGED <<l, tid, bad>>

Logged(r) == {<<r.diags[i][1], r.diags[i][2]>> : i \in 1..Len(r.diags)}
Matches(r, c, ex, ok, ds) == /\ r.rc = ex
                            /\ (c # "echo" => r.ok = ok)
                            /\ (c # "echo" => Logged(r) = ds)
\* the run ended before the command proper (a path that cannot be enumerated or read)
TObsDone == /\ IsEv("obs")
            /\ phase = "Done"
            /\ Matches(Rec[l], cmd, exit, okLine, diags)
            /\ UNCHANGED <<vars, tid, bad>>
\* the command ran: the step Run of the specification, taken with the choice (which faulty file is named) that the
\* observation shows - the conjunction with the logged values selects the branch, so the validation never forks
TObsRun == /\ IsEv("obs")
           /\ phase = "Read"
           /\ Run
           /\ Matches(Rec[l], cmd, exit', okLine', diags')
           /\ UNCHANGED <<tid, bad>>

Accept == TRun \/ TSilent \/ TObsDone \/ TObsRun

RECURSIVE NextRun(_)
NextRun(j) == IF j > Len(Rec) THEN j ELSE IF Rec[j].ev = "run" THEN j ELSE NextRun(j + 1)

Skip == /\ l <= Len(Rec)
        /\ ~ENABLED Accept
        /\ bad' = Append(bad, <<tid, l>>)
        /\ l' = NextRun(l + 1)
        /\ UNCHANGED <<vars, tid>>

TNext == Accept \/ Skip
TSpec == TInit /\ [][TNext]_tvars

\* the invariants of the design specification on every state of the observed runs
TraceInv == ExitOkDiagAgree /\ EchoTokenizeExit

Verdict == l > Len(Rec) => PrintT(<<"TRACE-VERDICT", Len(Rec), bad>>)
=============================================================================
