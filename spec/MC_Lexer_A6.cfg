SPECIFICATION Spec
CONSTANTS
  Alphabet = {"L","SP","LF","CR","LP","RP","ST","SL","X2"}
  MaxLen = 6
  Prefix = "none"
  Emit = TRUE
INVARIANTS TypeOK NoTie Tiling LineColDecl Total CodecRoundTrip SemTokOrdered EmitReplay
CHECK_DEADLOCK FALSE
