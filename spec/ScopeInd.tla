------------------------------ MODULE ScopeInd ------------------------------
(* Scope.tla with Apalache type annotations: the scoping invariants as an INDUCTIVE invariant
   (Init => IndInv, IndInv /\ Next => IndInv'), i.e. for walks of any length - TLC checks them up to MaxOps only. *)
EXTENDS Naturals, Sequences, FiniteSets

CONSTANTS
    \* @type: Set(Str);
    Names,
    \* @type: Int;
    MaxDepth

VARIABLES
    \* @type: Seq(Set(Str));
    stack,
    \* @type: Str;
    user

Root == stack[Len(stack)]
\* @type: Set(Str);
Visible == UNION {stack[i] : i \in DOMAIN stack}

ConstInit == Names = {"a", "b", "c"} /\ MaxDepth = 3

Init == stack = << {} >> /\ user \in {"decl", "type"}

Enter == stack' = << {} >> \o stack /\ UNCHANGED user
Exit  == Len(stack) > 1 /\ stack' = Tail(stack) /\ UNCHANGED user
Add(k) == stack' = [stack EXCEPT ![1] = @ \cup {k}] /\ UNCHANGED user
TryAdd(k) == stack' = [stack EXCEPT ![1] = @ \cup {k}] /\ UNCHANGED user
Find == UNCHANGED <<stack, user>>

DeclStep == \/ (Len(stack) = 1 /\ Len(stack) < MaxDepth /\ Enter)
            \/ (Len(stack) > 1 /\ Exit)
            \/ (\E k \in Names : Len(stack) > 1 /\ Add(k))
            \/ Find
TypeStep == (\E k \in Names : TryAdd(k)) \/ Find

Next == (user = "decl" /\ DeclStep) \/ (user = "type" /\ TypeStep)

TypeOK == /\ user \in {"decl", "type"}
          /\ Len(stack) >= 1 /\ Len(stack) <= MaxDepth
          /\ \A i \in DOMAIN stack : stack[i] \subseteq Names
RootStaysEmpty == user = "decl" => Root = {}
SiblingsIsolated == (user = "decl" /\ Len(stack) = 1) => Visible = {}
TypeWalkIsFlat == user = "type" => Len(stack) = 1
IndInv == TypeOK /\ RootStaysEmpty /\ SiblingsIsolated /\ TypeWalkIsFlat
\* an arbitrary state satisfying the invariant (for the inductive step)
IndInit == /\ user \in {"decl", "type"}
           /\ \E a \in SUBSET {"a", "b", "c"}, b \in SUBSET {"a", "b", "c"}, c \in SUBSET {"a", "b", "c"} :
                 stack \in {<<a>>, <<a, b>>, <<a, b, c>>}
           /\ IndInv
=============================================================================
