------------------------------ MODULE Literal ------------------------------
(***************************************************************************)
(* The structured literal space of IEC 61131-3 (B.1.2) and the exact       *)
(* mathematical value of every literal in it  (C09).                       *)
(*                                                                         *)
(* A behaviour is one literal: Init picks its kind and parameters; the     *)
(* operators below compute its SPELLING (a sequence of text parts) and its *)
(* VALUE (digit sequences / field tuples - exact, via BigNat) and what is  *)
(* expected of the parser:                                                 *)
(*    "accept"  well formed and representable: must be accepted with VALUE *)
(*    "either"  well formed, beyond every IEC width: accepted with exactly *)
(*              VALUE, or rejected with a syntax diagnostic                *)
(*    "reject"  ill formed (a field out of range) or not representable     *)
(***************************************************************************)
EXTENDS Naturals, Integers, Sequences, FiniteSets, TLC, Json, BigNat

CONSTANTS Kinds,      \* literal kinds enumerated by this configuration
          Emit

VARIABLE lit
vars == <<lit>>

---------------------------------------------------------------------------
(* helpers on digit sequences (most significant first) *)
HexChars == <<"0","1","2","3","4","5","6","7","8","9","A","B","C","D","E","F">>
Chars(ds) == [i \in 1..Len(ds) |-> HexChars[ds[i] + 1]]

RECURSIVE Rep(_, _)
Rep(x, n) == IF n = 0 THEN <<>> ELSE <<x>> \o Rep(x, n - 1)
Ones(n) == Rep(1, n)                     \* 2^n - 1 in binary
One0(n) == <<1>> \o Rep(0, n)            \* 2^n     in binary

\* bits (MS first) -> digits of base 2^g (MS first)
RECURSIVE GroupVal(_)
GroupVal(bs) == IF bs = <<>> THEN 0 ELSE 2 * GroupVal(SubSeq(bs, 1, Len(bs) - 1)) + bs[Len(bs)]
RECURSIVE Groups(_, _)
Groups(bs, g) == IF bs = <<>> THEN <<>>
                 ELSE IF Len(bs) <= g THEN <<GroupVal(bs)>>
                 ELSE Groups(SubSeq(bs, 1, Len(bs) - g), g) \o <<GroupVal(SubSeq(bs, Len(bs) - g + 1, Len(bs)))>>

DigitsInBase(bits, b) == CASE b = 2  -> bits
                           [] b = 8  -> Groups(bits, 3)
                           [] b = 16 -> Groups(bits, 4)
                           [] b = 10 -> Dec(Horner(bits, 2))

\* underscore patterns: IEC allows single underscores between digits
WithUnderscores(cs, pat) ==
  CASE pat = "none"   -> cs
    [] pat = "after1" -> IF Len(cs) < 2 THEN cs ELSE <<cs[1], "_">> \o Tail(cs)
    [] pat = "last"   -> IF Len(cs) < 2 THEN cs ELSE SubSeq(cs, 1, Len(cs) - 1) \o <<"_", cs[Len(cs)]>>
    [] pat = "every3" -> [i \in 1..Len(cs) |-> IF i > 1 /\ (Len(cs) - i + 1) % 3 = 0 THEN "_" \o cs[i] ELSE cs[i]]
    [] pat = "all"    -> [i \in 1..Len(cs) |-> IF i > 1 THEN "_" \o cs[i] ELSE cs[i]]

Patterns == {"none", "after1", "last", "every3", "all"}

---------------------------------------------------------------------------
(* B.1.2.1 integer literals *)
Magnitudes == {<<0>>, <<1>>, <<1, 0, 1>>} \cup {Ones(n) : n \in {7, 8, 15, 16, 31, 32, 63, 64, 127, 128}}
                                      \cup {One0(n) : n \in {7, 8, 15, 16, 31, 32, 63, 64, 127, 128}}
IntPrefixes == {"", "INT", "SINT", "DINT", "LINT", "USINT", "UINT", "UDINT", "ULINT"}

IntLits == { [k |-> "int", base |-> b, bits |-> m, sign |-> s, prefix |-> p, us |-> u] :
               b \in {2, 8, 10, 16}, m \in Magnitudes, s \in {"", "+", "-"}, p \in {"", "INT", "ULINT"}, u \in Patterns }
           \cup { [k |-> "int", base |-> 10, bits |-> m, sign |-> "", prefix |-> p, us |-> "none"] : m \in {<<1>>, Ones(7)}, p \in IntPrefixes }
IntWellFormed(l) == l.sign = "" \/ l.base = 10           \* only decimal integers are signed (B.1.2.1)

IntSpelling(l) ==
  (IF l.prefix = "" THEN <<>> ELSE <<l.prefix, "#">>)
  \o (IF l.sign = "" THEN <<>> ELSE <<l.sign>>)
  \o (IF l.base = 10 THEN <<>> ELSE <<IF l.base = 2 THEN "2#" ELSE IF l.base = 8 THEN "8#" ELSE "16#">>)
  \o WithUnderscores(Chars(DigitsInBase(l.bits, l.base)), l.us)

IntMagnitude(l) == Horner(l.bits, 2)                      \* BigNat
IntValue(l) == [neg |-> (l.sign = "-" /\ IntMagnitude(l) # <<>>), digits |-> Dec(IntMagnitude(l)), type |-> l.prefix]
BitLen(l) == IF l.bits = <<0>> THEN 0 ELSE Len(l.bits)
IntExpect(l) == IF BitLen(l) > 128 THEN "reject" ELSE IF BitLen(l) > 64 \/ l.prefix # "" THEN "either" ELSE "accept"

\* the value computed two ways: Horner on the spelled digits in the spelled base = positional sum
IntTwoWays(l) == LET ds == DigitsInBase(l.bits, l.base)
                 IN  /\ Horner(ds, l.base) = IntMagnitude(l)
                     /\ (Len(ds) <= 16 => Positional(ds, l.base) = IntMagnitude(l))

(* bit strings: BYTE# WORD# DWORD# LWORD# with any base *)
BitLits == { [k |-> "bits", base |-> b, bits |-> m, prefix |-> p, us |-> u] :
               b \in {2, 8, 10, 16}, m \in {<<0>>, <<1>>, Ones(8), One0(8), Ones(16), Ones(32), Ones(64), One0(64)},
               p \in {"BYTE", "WORD", "DWORD", "LWORD"}, u \in {"none", "every3"} }
BitSpelling(l) == <<l.prefix, "#">>
                  \o (IF l.base = 10 THEN <<>> ELSE <<IF l.base = 2 THEN "2#" ELSE IF l.base = 8 THEN "8#" ELSE "16#">>)
                  \o WithUnderscores(Chars(DigitsInBase(l.bits, l.base)), l.us)
BitValue(l) == [digits |-> Dec(Horner(l.bits, 2)), type |-> l.prefix]
BitExpect(l) == IF BitLen(l) > 64 THEN "either" ELSE "accept"      \* wider than its type: kept exactly or rejected

---------------------------------------------------------------------------
(* real literals: mantissa digits, number of fraction digits, exponent *)
IntParts  == {<<0>>, <<1>>, <<1, 5>>, <<1, 2, 3, 4, 5, 6, 7, 8, 9>>, <<9, 0, 0, 7, 1, 9, 9, 2, 5, 4, 7, 4, 0, 9, 9, 3>>}
FracParts == {<<0>>, <<5>>, <<2, 5>>, <<0, 0, 0, 0, 0, 1>>, <<1, 0, 0, 0, 0, 0, 0, 0, 0, 0, 0, 0, 0, 0, 0, 0, 1>>}
Exponents == {<<"", 0>>, <<"E", 0>>, <<"E", 3>>, <<"e-", -3>>, <<"E+", 10>>, <<"E-", -20>>, <<"E", 308>>, <<"e", 309>>, <<"E-", -330>>}
RealLits == { [k |-> "real", ip |-> i, fp |-> f, ex |-> e, sign |-> s, prefix |-> p, us |-> u] :
                i \in IntParts, f \in FracParts, e \in Exponents, s \in {"", "-", "+"}, p \in {"", "REAL", "LREAL"}, u \in {"none", "after1"} }
Abs(n) == IF n < 0 THEN -n ELSE n
RealSpelling(l) == (IF l.prefix = "" THEN <<>> ELSE <<l.prefix, "#">>) \o (IF l.sign = "" THEN <<>> ELSE <<l.sign>>)
                   \o WithUnderscores(Chars(l.ip), l.us) \o <<".">> \o Chars(l.fp)
                   \o (IF l.ex[1] = "" THEN <<>> ELSE <<l.ex[1]>> \o Chars(Dec(OfNat(Abs(l.ex[2])))))
\* exact value = mant * 10^exp10
RealValue(l) == [neg |-> l.sign = "-", mant |-> Dec(Horner(l.ip \o l.fp, 10)), exp10 |-> l.ex[2] - Len(l.fp), type |-> l.prefix]

---------------------------------------------------------------------------
(* B.1.2.3.1 durations: parts <<whole digits, fraction digits, unit>>; only the last part may have a fraction *)
UnitSeconds == [d |-> 86400, h |-> 3600, m |-> 60, s |-> 1]
Wholes == {<<0>>, <<1>>, <<2, 4>>, <<5, 9>>, <<6, 0>>, <<9, 9, 9>>, <<1, 0, 0, 0>>, <<2, 1, 4, 7, 4, 8, 3, 6, 4, 8>>,
           <<4, 2, 9, 4, 9, 6, 7, 2, 9, 6>>}
Fracs == {<<>>, <<5>>, <<2, 5>>, <<0, 0, 1>>}
UnitSpellings == [d |-> {"d", "D"}, h |-> {"h", "H"}, m |-> {"m", "M"}, s |-> {"s", "S"}, ms |-> {"ms", "MS", "Ms"}]
Units == <<"d", "h", "m", "s", "ms">>

\* long fractions: 9 digits (1 ns), 10 digits (integral only for d / h / m), 15 / 16 / 20 digits with trailing zeros
\* (the value is that of "0.5"), and 15 digits ending in 1 (below a nanosecond for every unit)
LongFracs == {<<1, 2, 3, 4, 5, 6, 7, 8, 9>>, Rep(0, 9) \o <<5>>, <<5>> \o Rep(0, 14), <<5>> \o Rep(0, 15), <<5>> \o Rep(0, 19),
              Rep(0, 14) \o <<1>>}

\* a * 10^e for negative e: exact iff the low -e digits are zero (BigNat is little-endian)
ExactDown(a, m) == a = <<>> \/ (Len(a) > m /\ \A i \in 1..m : a[i] = 0)
ScaleExact(a, e) == e >= 0 \/ ExactDown(a, 0 - e)
Scale(a, e) == IF e >= 0 THEN Shift(a, e) ELSE IF Len(a) > 0 - e THEN SubSeq(a, 1 - e, Len(a)) ELSE <<>>    \* floor for inexact

\* nanoseconds of one part (exact when PartExact)
PartRaw(w, f, u) == IF u = "ms" THEN Horner(w \o f, 10) ELSE MulSmall(Horner(w \o f, 10), UnitSeconds[u])
PartExp(f, u) == IF u = "ms" THEN 6 - Len(f) ELSE 9 - Len(f)
PartExact(w, f, u) == ScaleExact(PartRaw(w, f, u), PartExp(f, u))
PartNanos(w, f, u) == Scale(PartRaw(w, f, u), PartExp(f, u))

DurSingle == { [k |-> "dur", pfx |-> p, neg |-> ng, parts |-> <<<<w, f, u, us>>>>, sep |-> ""] :
                 p \in {"T", "TIME", "t", "time"}, ng \in BOOLEAN, w \in Wholes, f \in Fracs,
                 u \in {"d", "h", "m", "s", "ms"}, us \in {"lower", "upper"} }
DurCompound == { [k |-> "dur", pfx |-> "T", neg |-> FALSE, parts |-> ps, sep |-> sp] :
                   ps \in { <<<<<<1>>, <<>>, "h", "lower">>, <<<<3, 0>>, <<>>, "m", "lower">>>>,
                            <<<<<<1>>, <<>>, "d", "lower">>, <<<<2>>, <<>>, "h", "lower">>, <<<<3>>, <<>>, "m", "lower">>,
                              <<<<4>>, <<>>, "s", "lower">>, <<<<5>>, <<5>>, "ms", "lower">>>>,
                            <<<<<<2>>, <<>>, "m", "lower">>, <<<<5>>, <<5>>, "s", "lower">>>>,
                            <<<<<<1>>, <<>>, "s", "upper">>, <<<<5, 0, 0>>, <<>>, "ms", "upper">>>> },
                   sp \in {"", "_"} }
\* long fractions, positive and negative (a negative duration below one unit: the sign is not in the whole part), and
\* digit-group underscores inside the fraction (5th element of a part: the underscore pattern of its fraction)
DurLong == { [k |-> "dur", pfx |-> "T", neg |-> ng, parts |-> <<<<w, f, u, "lower">>>>, sep |-> ""] :
               w \in {<<0>>, <<1>>}, f \in LongFracs, u \in {"d", "h", "m", "s", "ms"}, ng \in BOOLEAN }
           \cup { [k |-> "dur", pfx |-> "T", neg |-> ng, parts |-> <<<<w, f, u, "lower", fus>>>>, sep |-> ""] :
               w \in {<<0>>, <<1, 0>>}, f \in {<<2, 5>>, <<0, 0, 0, 5>>, <<1, 2, 3, 4, 5, 6>>}, u \in {"h", "s", "ms"}, ng \in BOOLEAN,
               fus \in {"after1", "every3", "last"} }
DurLits == DurSingle \cup DurCompound \cup DurLong

UnitText(u, us) == IF us = "lower" THEN u ELSE IF u = "ms" THEN "MS" ELSE CHOOSE x \in UnitSpellings[u] : x # u
RECURSIVE PartsSpelling(_, _)
PartsSpelling(ps, sep) ==
  IF ps = <<>> THEN <<>>
  ELSE LET p == Head(ps)
       IN  Chars(p[1]) \o (IF p[2] = <<>> THEN <<>> ELSE <<".">> \o WithUnderscores(Chars(p[2]), IF Len(p) >= 5 THEN p[5] ELSE "none"))
           \o <<UnitText(p[3], p[4])>>
           \o (IF Tail(ps) = <<>> THEN <<>> ELSE (IF sep = "" THEN <<>> ELSE <<sep>>) \o PartsSpelling(Tail(ps), sep))
DurSpelling(l) == <<l.pfx, "#">> \o (IF l.neg THEN <<"-">> ELSE <<>>) \o PartsSpelling(l.parts, l.sep)
RECURSIVE SumNanos(_)
SumNanos(ps) == IF ps = <<>> THEN <<>> ELSE Add(PartNanos(Head(ps)[1], Head(ps)[2], Head(ps)[3]), SumNanos(Tail(ps)))
DurValue(l) == [neg |-> (l.neg /\ SumNanos(l.parts) # <<>>), nanos |-> Dec(SumNanos(l.parts))]
\* representable in every reasonable implementation: below 2^62 seconds ~ 4.6 * 10^27 ns (28 digits)
\* a value that is not a whole number of nanoseconds cannot be represented: rejected, never truncated;
\* a fraction of more than 15 digits may be refused whatever its value
DurAllExact(l) == \A i \in 1..Len(l.parts) : PartExact(l.parts[i][1], l.parts[i][2], l.parts[i][3])
DurExpect(l) == IF ~DurAllExact(l) THEN "reject"
                ELSE IF \E i \in 1..Len(l.parts) : Len(l.parts[i][2]) > 15 THEN "either"
                ELSE IF Len(SumNanos(l.parts)) <= 27 THEN "accept" ELSE "either"

---------------------------------------------------------------------------
(* dates, times of day, date-and-time *)
Leap(y) == (y % 4 = 0 /\ y % 100 # 0) \/ y % 400 = 0
DaysIn(y, m) == CASE m \in {1, 3, 5, 7, 8, 10, 12} -> 31 [] m \in {4, 6, 9, 11} -> 30 [] m = 2 -> (IF Leap(y) THEN 29 ELSE 28) [] OTHER -> 0
ValidDate(y, m, d) == m \in 1..12 /\ d \in 1..DaysIn(y, m)
Years == {1, 1970, 1900, 2000, 2023, 2024, 9999}
DateLits == { [k |-> "date", pfx |-> p, y |-> y, m |-> m, d |-> d, pad |-> pd] :
                p \in {"D", "DATE", "d"}, y \in Years, m \in {0, 1, 2, 12, 13}, d \in {0, 1, 28, 29, 30, 31, 32}, pd \in BOOLEAN }
Num(n, width) == LET ds == Dec(OfNat(n)) IN Chars(IF Len(ds) < width THEN Rep(0, width - Len(ds)) \o ds ELSE ds)
DateFields(l) == Num(l.y, IF l.pad THEN 4 ELSE 1) \o <<"-">> \o Num(l.m, IF l.pad THEN 2 ELSE 1) \o <<"-">> \o Num(l.d, IF l.pad THEN 2 ELSE 1)
DateSpelling(l) == <<l.pfx, "#">> \o DateFields(l)
DateValue(l) == [y |-> l.y, m |-> l.m, d |-> l.d]
DateExpect(l) == IF ValidDate(l.y, l.m, l.d) THEN "accept" ELSE "reject"

TodLits == { [k |-> "tod", pfx |-> p, h |-> h, mi |-> mi, s |-> s, f |-> f, pad |-> pd] :
               p \in {"TOD", "TIME_OF_DAY", "tod"}, h \in {0, 1, 23, 24}, mi \in {0, 59, 60}, s \in {0, 59, 60, 61, 255, 256, 300},
               f \in {<<>>, <<5>>, <<2, 5>>, <<9, 9, 9>>}, pd \in BOOLEAN }
TodLong == { [k |-> "tod", pfx |-> "TOD", h |-> 10, mi |-> 11, s |-> 12, f |-> f, pad |-> TRUE, fus |-> fu] : fu \in {"none", "after1"},
               f \in {<<1, 2, 3, 4, 5, 6, 7, 8, 9>>, Rep(0, 9) \o <<5>>, <<5>> \o Rep(0, 14), <<5>> \o Rep(0, 15),
                      <<0, 5>>, <<0, 0, 7>>, <<1, 2, 3, 4>>, <<1, 2, 3, 4, 5, 6>>, <<0, 0, 0, 0, 0, 1>>} }
TodFields(l) == Num(l.h, IF l.pad THEN 2 ELSE 1) \o <<":">> \o Num(l.mi, IF l.pad THEN 2 ELSE 1) \o <<":">> \o Num(l.s, IF l.pad THEN 2 ELSE 1)
                \o (IF l.f = <<>> THEN <<>> ELSE <<".">> \o WithUnderscores(Chars(l.f), IF "fus" \in DOMAIN l THEN l.fus ELSE "none"))
TodSpelling(l) == <<l.pfx, "#">> \o TodFields(l)
\* fraction as nanoseconds
TodValue(l) == [h |-> l.h, mi |-> l.mi, s |-> l.s, nanos |-> Dec(Scale(Horner(l.f, 10), 9 - Len(l.f)))]
ValidTod(l) == l.h \in 0..23 /\ l.mi \in 0..59 /\ l.s \in 0..59
FracExact(f) == ScaleExact(Horner(f, 10), 9 - Len(f))
TodExpect(l) == IF ~FracExact(l.f) THEN "reject"
                ELSE IF ValidTod(l) THEN (IF Len(l.f) > 15 THEN "either" ELSE "accept")
                ELSE IF l.h \in 0..23 /\ l.mi \in 0..59 /\ l.s = 60 THEN "either" ELSE "reject"

DtLits == { [k |-> "dt", pfx |-> p, y |-> y, m |-> m, d |-> d, h |-> h, mi |-> mi, s |-> s, f |-> f, pad |-> TRUE] :
              p \in {"DT", "DATE_AND_TIME"}, y \in {1970, 2024}, m \in {2, 13}, d \in {28, 29, 30}, h \in {0, 23, 24}, mi \in {59, 60},
              s \in {59, 61}, f \in {<<>>, <<2, 5>>} }
DtSpelling(l) == <<l.pfx, "#">> \o DateFields(l) \o <<"-">> \o TodFields(l)
DtValue(l) == [y |-> l.y, m |-> l.m, d |-> l.d, h |-> l.h, mi |-> l.mi, s |-> l.s, nanos |-> Dec(Shift(Horner(l.f, 10), 9 - Len(l.f)))]
DtExpect(l) == IF ValidDate(l.y, l.m, l.d) /\ ValidTod(l) THEN "accept" ELSE "reject"

---------------------------------------------------------------------------
(* B.1.2.2 character strings: items <<spelling, denoted character (by name)>> *)
Plain == { <<"a", "a">>, <<" ", "SP">>, <<" ", "NBSP">>, <<"Z", "Z">>, <<"0", "0">>, <<"é", "é">>, <<"€", "€">>, <<"(*", "(*">>, <<";", ";">> }
Escapes == { <<"$$", "$">>, <<"$L", "LF">>, <<"$N", "LF">>, <<"$P", "FF">>, <<"$R", "CR">>, <<"$T", "TAB">>, <<"$41", "A">>, <<"$l", "LF">> }
StrItems1 == Plain \cup Escapes \cup { <<"\"", "\"">>, <<"$'", "'">> }       \* in '...'
StrItems2 == Plain \cup Escapes \cup { <<"'", "'">>, <<"$\"", "\"">> }       \* in "..."
StrLits == { [k |-> "str", q |-> "'", items |-> it, pfx |-> p] : it \in UNION {[1..n -> StrItems1] : n \in 0..2}, p \in {"", "STRING#"} }
           \cup { [k |-> "str", q |-> "\"", items |-> it, pfx |-> p] : it \in UNION {[1..n -> StrItems2] : n \in 0..2}, p \in {"", "WSTRING#"} }
StrSpelling(l) == (IF l.pfx = "" THEN <<>> ELSE <<l.pfx>>) \o <<l.q>> \o [i \in 1..Len(l.items) |-> l.items[i][1]] \o <<l.q>>
StrValue(l) == [chars |-> [i \in 1..Len(l.items) |-> l.items[i][2]], wide |-> l.q = "\""]
StrHasEscape(l) == \E i \in 1..Len(l.items) : l.items[i] \notin Plain /\ l.items[i][1] \notin {"\"", "'"}

---------------------------------------------------------------------------
(* B.1.4.1 directly represented variables *)
Components == {<<0>>, <<7>>, <<1, 0>>, <<2, 5, 5>>, <<6, 5, 5, 3, 5>>, <<4, 2, 9, 4, 9, 6, 7, 2, 9, 5>>, <<4, 2, 9, 4, 9, 6, 7, 2, 9, 6>>}
AddrLits == { [k |-> "addr", loc |-> lo, size |-> sz, comps |-> cs, lower |-> lw] :
                lo \in {"I", "Q", "M"}, sz \in {"", "X", "B", "W", "D", "L"},
                cs \in UNION {[1..n -> Components] : n \in 1..2} \cup {<<<<1>>, <<2>>, <<3>>>>, <<<<1, 0>>, <<2, 5, 5>>, <<7>>>>},
                lw \in BOOLEAN }
Lower(s) == CASE s = "I" -> "i" [] s = "Q" -> "q" [] s = "M" -> "m" [] s = "X" -> "x" [] s = "B" -> "b" [] s = "W" -> "w"
              [] s = "D" -> "d" [] s = "L" -> "l" [] OTHER -> s
RECURSIVE CompsSpelling(_)
CompsSpelling(cs) == IF cs = <<>> THEN <<>> ELSE Chars(Head(cs)) \o (IF Tail(cs) = <<>> THEN <<>> ELSE <<".">> \o CompsSpelling(Tail(cs)))
AddrSpelling(l) == <<"%", IF l.lower THEN Lower(l.loc) ELSE l.loc>> \o (IF l.size = "" THEN <<>> ELSE <<IF l.lower THEN Lower(l.size) ELSE l.size>>)
                   \o CompsSpelling(l.comps)
AddrValue(l) == [loc |-> l.loc, size |-> l.size, comps |-> [i \in 1..Len(l.comps) |-> l.comps[i]]]
\* a component beyond 32 bits is kept exactly or rejected
AddrExpect(l) == IF \E i \in 1..Len(l.comps) : ~Less(Horner(l.comps[i], 10), Horner(<<4, 2, 9, 4, 9, 6, 7, 2, 9, 6>>, 10))
                 THEN "either" ELSE "accept"

---------------------------------------------------------------------------
(* B.1.2.1 Boolean literals:  ( [ 'BOOL#' ] ( '1' | '0' ) ) | 'TRUE' | 'FALSE'.  A bit other than 0 and 1 does not fit in
   one bit: rejected, never "everything that is not 0 is TRUE".  (Unprefixed 0 / 1 are integer literals: not generated.) *)
BoolLits == { [k |-> "bool", pfx |-> p, body |-> b] : p \in {"BOOL#", "bool#", "Bool#"},
                b \in {"TRUE", "FALSE", "true", "False", "0", "1", "2", "10", "1_0", "01", "255", "-1", "+1", "16#1", "2#0"} }
            \cup { [k |-> "bool", pfx |-> "", body |-> b] : b \in {"TRUE", "FALSE", "true", "False", "tRUE"} }
BoolSpelling(l) == IF l.pfx = "" THEN <<l.body>> ELSE <<l.pfx, l.body>>
BoolValue(l) == [v |-> l.body \in {"TRUE", "true", "tRUE", "1", "01", "+1", "16#1"}]
BoolExpect(l) == IF l.body \in {"TRUE", "FALSE", "true", "False", "tRUE", "0", "1"} THEN "accept"
                 ELSE IF l.body \in {"01", "+1", "16#1", "2#0"} THEN "either"      \* 0 or 1, but not spelled as the standard has it
                 ELSE "reject"

---------------------------------------------------------------------------
(* Spellings that are NOT literals of the standard although each part of them is one: an exponent belongs to real literals
   only (B.1.2.1), not to the fields of durations, times of day and dates; a fraction belongs to the LAST field only.
   They must be rejected - never read as some value. *)
IllSpellings == { <<"dur", "T#1.5E1s">>, <<"dur", "T#2.5e-1h">>, <<"dur", "TIME#1E3ms">>, <<"dur", "t#1.0e+1m">>, <<"dur", "T#1.5E1d">>,
                  <<"tod", "TOD#12:00:1.5E1">>, <<"tod", "TIME_OF_DAY#1.5E1:00:00">>, <<"dt", "DT#2020-01-01-12:00:1.5E1">>,
                  <<"date", "D#2020-1.5-01">>, <<"date", "D#2020-01-1E1">>, <<"dur", "T#1.5.5s">>, <<"tod", "TOD#12:1.5:00">> }
IllLits == { [k |-> "ill", as |-> x[1], text |-> x[2]] : x \in IllSpellings }

---------------------------------------------------------------------------
All == (IF "ill" \in Kinds THEN IllLits ELSE {}) \cup (IF "bool" \in Kinds THEN BoolLits ELSE {}) \cup (IF "int" \in Kinds THEN {l \in IntLits : IntWellFormed(l)} ELSE {})
       \cup (IF "bits" \in Kinds THEN BitLits ELSE {}) \cup (IF "real" \in Kinds THEN RealLits ELSE {})
       \cup (IF "dur" \in Kinds THEN DurLits ELSE {}) \cup (IF "date" \in Kinds THEN DateLits ELSE {})
       \cup (IF "tod" \in Kinds THEN TodLits \cup TodLong ELSE {}) \cup (IF "dt" \in Kinds THEN DtLits ELSE {})
       \cup (IF "str" \in Kinds THEN StrLits ELSE {}) \cup (IF "addr" \in Kinds THEN AddrLits ELSE {})

Init == lit \in All
Next == UNCHANGED lit
Spec == Init /\ [][Next]_vars

Spelling(l) == CASE l.k = "ill" -> <<l.text>> [] l.k = "bool" -> BoolSpelling(l) [] l.k = "int" -> IntSpelling(l) [] l.k = "bits" -> BitSpelling(l) [] l.k = "real" -> RealSpelling(l)
                 [] l.k = "dur" -> DurSpelling(l) [] l.k = "date" -> DateSpelling(l) [] l.k = "tod" -> TodSpelling(l)
                 [] l.k = "dt" -> DtSpelling(l) [] l.k = "str" -> StrSpelling(l) [] l.k = "addr" -> AddrSpelling(l)
Value(l) == CASE l.k = "ill" -> [as |-> l.as] [] l.k = "bool" -> BoolValue(l) [] l.k = "int" -> IntValue(l) [] l.k = "bits" -> BitValue(l) [] l.k = "real" -> RealValue(l)
              [] l.k = "dur" -> DurValue(l) [] l.k = "date" -> DateValue(l) [] l.k = "tod" -> TodValue(l)
              [] l.k = "dt" -> DtValue(l) [] l.k = "str" -> StrValue(l) [] l.k = "addr" -> AddrValue(l)
Expect(l) == CASE l.k = "ill" -> "reject" [] l.k = "bool" -> BoolExpect(l) [] l.k = "int" -> IntExpect(l) [] l.k = "bits" -> BitExpect(l) [] l.k = "real" -> "accept"
               [] l.k = "dur" -> DurExpect(l) [] l.k = "date" -> DateExpect(l) [] l.k = "tod" -> TodExpect(l)
               [] l.k = "dt" -> DtExpect(l) [] l.k = "str" -> "accept" [] l.k = "addr" -> AddrExpect(l)

(* construct labels for findings *)
Labels(l) == {"lit:" \o l.k}
             \cup (IF l.k = "bool" /\ l.body \in {"0", "1"} /\ l.pfx # "" THEN {"bool:bit"} ELSE {})
             \cup (IF l.k = "dur" /\ Len(l.parts) > 1 THEN {"dur:compound"} ELSE {})
             \cup (IF l.k = "dur" /\ Len(l.parts) = 1 THEN {"dur:unit:" \o l.parts[1][3]} ELSE {})
             \cup (IF l.k = "dur" /\ Len(l.parts) = 1 /\ l.parts[1][2] # <<>> THEN {"dur:fraction"} ELSE {})
             \cup (IF l.k = "dur" /\ (\E i \in 1..Len(l.parts) : Len(l.parts[i]) >= 5) THEN {"dur:fraction-underscore"} ELSE {})
             \cup (IF l.k = "dur" /\ ~DurAllExact(l) THEN {"dur:subnano"} ELSE {})
             \cup (IF l.k = "dur" /\ (\E i \in 1..Len(l.parts) : Len(l.parts[i][2]) > 9) THEN {"dur:longfraction"} ELSE {})
             \cup (IF l.k = "tod" /\ ~FracExact(l.f) THEN {"tod:subnano"} ELSE {})
             \cup (IF l.k = "tod" /\ Len(l.f) > 9 THEN {"tod:longfraction"} ELSE {})
             \cup (IF l.k = "str" /\ StrHasEscape(l) THEN {"str:escape"} ELSE {})
             \cup (IF l.k = "str" THEN {IF l.q = "'" THEN "str:single" ELSE "str:double"} ELSE {})
             \cup (IF l.k = "addr" /\ (\E i \in 1..Len(l.comps) : Len(l.comps[i]) > 1) THEN {"addr:multidigit"} ELSE {})
             \cup (IF l.k = "addr" /\ l.lower THEN {"addr:lowercase"} ELSE {})
             \cup (IF l.k \in {"int", "bits"} THEN {"base:" \o (IF l.base = 2 THEN "2" ELSE IF l.base = 8 THEN "8" ELSE IF l.base = 10 THEN "10" ELSE "16")} ELSE {})
             \cup (IF l.k = "real" /\ Abs(l.ex[2]) >= 300 THEN {"real:extreme-exponent"} ELSE {})
             \cup (IF l.k = "tod" /\ l.f # <<>> THEN {"tod:fraction"} ELSE {})

---------------------------------------------------------------------------
(* properties of the specification itself *)
ValueTwoWays == lit.k = "int" => IntTwoWays(lit)
\* a date is valid iff it has a successor/predecessor structure: day <= days in month, and Feb 29 only in leap years
LeapSanity == Leap(2024) /\ ~Leap(2023) /\ ~Leap(1900) /\ Leap(2000)
TrailingZerosNeutral == \A u \in {"d", "h", "m", "s", "ms"} :
                           /\ PartNanos(<<1>>, <<5>> \o Rep(0, 15), u) = PartNanos(<<1>>, <<5>>, u)
                           /\ PartExact(<<1>>, <<5>> \o Rep(0, 15), u)
SubNanoInexact == ~PartExact(<<0>>, Rep(0, 9) \o <<5>>, "s") /\ PartExact(<<0>>, Rep(0, 9) \o <<5>>, "h")
                  /\ PartNanos(<<0>>, Rep(0, 9) \o <<5>>, "h") = Horner(<<1, 8, 0, 0>>, 10)
DurAdditive == lit.k = "dur" => SumNanos(lit.parts) = SumNanos(<<Head(lit.parts)>>) \/ Len(lit.parts) > 1
Replay == [R |-> "lit", kind |-> lit.k, text |-> Spelling(lit), value |-> Value(lit), expect |-> Expect(lit), labs |-> Labels(lit)]
EmitReplay == Emit => PrintT(ToJson(Replay))
=============================================================================
