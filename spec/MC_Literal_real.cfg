SPECIFICATION Spec
CONSTANTS
  Kinds = {"real"}
  Emit = TRUE
INVARIANTS ValueTwoWays LeapSanity EmitReplay
CHECK_DEADLOCK FALSE
