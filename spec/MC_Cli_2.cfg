SPECIFICATION Spec
CONSTANTS
  DirOf <- MCDirOf
  ClassOf <- MCClassOf
  Provider <- MCProvider
  DirNames <- MCDirNames
  BadDirs <- MCBadDirs
  MaxArgs = 2
  Commands = {"check", "echo", "tokenize"}
  Encodings = {"utf8"}
  Verbosities = {0}
  Emit = TRUE
INVARIANTS ExitOkDiagAgree EchoTokenizeExit DependsOnlyOnDenotation EmitReplay
CHECK_DEADLOCK FALSE
