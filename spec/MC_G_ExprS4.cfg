SPECIFICATION Spec
CONSTANTS
  Start = "lib_expr"
  Fuel = 4
  Quarantine = {"prim:const", "var:direct", "var:field", "var:index", "prim:call"}
  Only = {}
  Offsets = {0}
  Allow = {}
  Emit = TRUE
INVARIANTS OneValue NothingDropped Terminates PrecedenceShape EmitReplay
CHECK_DEADLOCK FALSE
