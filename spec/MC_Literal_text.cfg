SPECIFICATION Spec
CONSTANTS
  Kinds = {"str", "addr", "bool"}
  Emit = TRUE
INVARIANTS ValueTwoWays LeapSanity EmitReplay
CHECK_DEADLOCK FALSE
