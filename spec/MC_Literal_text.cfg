SPECIFICATION Spec
CONSTANTS
  Kinds = {"str", "addr"}
  Emit = TRUE
INVARIANTS ValueTwoWays LeapSanity EmitReplay
CHECK_DEADLOCK FALSE
