SPECIFICATION Spec
CONSTANTS
  Names = {"a", "b"}
  MaxDepth = 3
  MaxOps = 7
  Deviations = {}
INVARIANTS RootNeverLeft RootStaysEmpty SiblingsIsolated TypeWalkIsFlat
PROPERTIES ExitForgets FindIsMembership
CHECK_DEADLOCK FALSE
