SPECIFICATION Spec
CONSTANTS
  Start = "lib_config"
  Fuel = 4
  Quarantine = {}
  Only = {}
  Offsets = {0}
  Allow = {"progconf:elems", "progconf:elems2", "progconf:fbtask", "progconf:sink", "progconf:with", "config:task", "config:prog2", "pcsink:direct", "pcsrc:name", "pcsrc:direct", "q:retain", "q:non_retain"}
  Emit = TRUE
INVARIANTS OneValue NothingDropped Terminates PrecedenceShape EmitReplay
CHECK_DEADLOCK FALSE
