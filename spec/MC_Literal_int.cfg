SPECIFICATION Spec
CONSTANTS
  Kinds = {"int", "bits"}
  Emit = TRUE
INVARIANTS ValueTwoWays LeapSanity EmitReplay
CHECK_DEADLOCK FALSE
