"""Runs Grammar.tla configurations and replays the derivations into the real parser (shared by C01/C04/C05/C08/C10)."""
import json
import os
import random
from concurrent.futures import ProcessPoolExecutor, ThreadPoolExecutor

import gram
import vlib


POOL = {}     # literal pools of GrammarProds.tla as printed by TLC: kind -> [spelling ...]


def pool_obligation(labels):
    """every entry of every literal pool must have been exercised by some derivation of the run (coverage obligation:
    a literal form the corpus never contains is a blind spot, reported as a tool error, not as a violation)"""
    if not POOL:
        raise vlib.ToolError("TLC did not print the literal pools")
    missing = sorted("lit:%s:%s" % (k, sp) for k, sps in POOL.items() for sp in sps if "lit:%s:%s" % (k, sp) not in labels)
    if missing:
        raise vlib.ToolError("literal pool entries never exercised: %s" % ", ".join(missing[:20]))
    return sum(len(v) for v in POOL.values())


def derivations(cfgs, cov=None, timeout=7200, par=3):
    """Model-checks each configuration (OneValue, NothingDropped, Terminates, PrecedenceShape) and collects the
    derivations TLC printed."""
    per = max(2, vlib.NCPU // max(1, min(len(cfgs), par)))
    with ThreadPoolExecutor(max_workers=min(len(cfgs), par)) as ex:
        runs = list(ex.map(lambda c: vlib.tlc_check("Grammar.tla", "MC_G_%s.cfg" % c, workers=per, timeout=timeout), cfgs))
    out = []
    for c, r in zip(cfgs, runs):
        n = 0
        for d in r["replay"]:
            if d.get("R") == "pool":
                POOL.update({k: list(v) for k, v in d["pool"].items()})
            if d.get("R") == "g":
                d["cfg"] = c
                out.append(d)
                n += 1
        if cov is not None:
            cov["states"] += r["states"]
            cov["transitions"] += r["transitions"]
            cov["tlc_runs"].append({"cfg": "MC_G_%s.cfg" % c, "states": r["states"], "derivations": n, "wall_s": round(r["wall_s"], 1)})
        if n == 0:
            raise vlib.ToolError("no derivation from " + c)
    return out


def derivation_batches(cfgs, cov=None, timeout=14400, batch=20000):
    """The same derivations as derivations(), one configuration after the other and in batches, for the thorough tier:
    nothing but the current batch is kept in memory."""
    for c in cfgs:
        stats = {}
        n = 0
        for recs in vlib.tlc_stream("Grammar.tla", "MC_G_%s.cfg" % c, stats, workers=max(4, vlib.NCPU // 2), timeout=timeout, batch=batch):
            ds = []
            for d in recs:
                if d.get("R") == "pool":
                    POOL.update({k: list(v) for k, v in d["pool"].items()})
                if d.get("R") == "g":
                    d["cfg"] = c
                    ds.append(d)
            n += len(ds)
            if ds:
                yield ds
        if cov is not None:
            cov["states"] += stats.get("states", 0)
            cov["transitions"] += stats.get("transitions", 0)
            cov["tlc_runs"].append({"cfg": "MC_G_%s.cfg" % c, "states": stats.get("states", 0), "derivations": n, "wall_s": round(stats.get("wall_s", 0), 1)})
        if n == 0:
            raise vlib.ToolError("no derivation from " + c)


def batches(cfgs, tier, cov):
    """quick: one batch with everything (TLC runs in parallel); thorough: streamed batches"""
    if tier == "quick":
        yield derivations(cfgs, cov)
    else:
        for ds in derivation_batches(cfgs, cov):
            yield ds


def parse_cases(texts, render=False, analyze=False, tree=True):
    cases = [{"id": i, "text": t, "render": render, "analyze": analyze, "tree": tree} for i, t in enumerate(texts)]
    return vlib.harness("parse", cases, per_case_timeout=30)


# ------------------------------------------------------------------------------------------------------
# chunked, multi-process replay: each worker spells, parses (own vph process), projects and compares
# ------------------------------------------------------------------------------------------------------
def _strip_positions(t):
    return t


def _worker(args):
    mode, chunk, seed, opts = args
    rng = random.Random(seed)
    cases = []
    meta = []
    for di, d in chunk:
        toks = d["toks"]
        variants = [("canonical", gram.spell(toks))]
        if mode == "c01":
            for k in range(opts.get("layouts", 1)):
                variants.append(("layout", gram.spell(toks, rng, trivia=True)))
        elif mode == "c08":
            for k in range(opts.get("respell", 2)):
                variants.append(("respelled", gram.spell(toks, rng, trivia=True, case=True)))
            if any(t[1] == "END_IF" for t in toks):
                variants.append(("endif-nosemi", gram.spell(toks, rng, drop_endif_semi=True)))
            cs = gram.spell(toks, compact=True)
            if cs[0] != variants[0][1][0]:
                variants.append(("compact", cs))
        if mode == "c10":
            # the renderer's own layout ('a [ 1 ]') differs from how people write ('a[1]'): both spellings must round-trip
            cs = gram.spell(toks, compact=True)
            if cs[0] != variants[0][1][0]:
                variants.append(("compact", cs))
        for vn, (text, spans) in variants:
            cases.append({"id": len(cases), "text": text, "render": mode == "c10", "analyze": mode in ("c08",), "tree": True})
            meta.append((di, vn, spans))
    res = vlib._run_chunk("parse", cases, 30.0)
    fails = []
    stats = {"cases": len(cases), "ok": 0}
    canon = {}
    for c, (di, vn, spans) in zip(cases, meta):
        r = res[c["id"]]
        d = chunk_lookup(chunk, di)
        out = _judge(mode, d, vn, c["text"], spans, r, canon)
        if out is None:
            stats["ok"] += 1
        else:
            fails.append((di, vn, c["text"], out[0], out[1]))
    return fails, stats


def chunk_lookup(chunk, di):
    for i, d in chunk:
        if i == di:
            return d
    raise KeyError(di)


def _crash(r):
    if "panic" in r:
        return "panic:%s" % r.get("stage")
    if "abort" in r:
        return "abort"
    if "timeout" in r:
        return "timeout"
    return None


def _judge(mode, d, vn, text, spans, r, canon):
    """returns None or (signature, detail)"""
    cr = _crash(r)
    if cr:
        return (cr, {"result": {k: v for k, v in r.items() if k != "tree"}})
    if mode == "c01":
        if not r.get("ok"):
            return ("parse-fail", {"diag": r.get("diag")})
        try:
            got = gram.project(r["tree"])
        except gram.ProjError as e:
            return ("unprojectable:%s" % str(e)[:40], {})
        exp = gram.denote(d["val"])
        df = gram.diff(exp, got)
        if df:
            return ("diff:" + df[0], {"expected": df[1], "parsed": df[2]})
        return None
    if mode == "c08":
        # relational: the re-spelled text must parse to the same library and get the same analysis codes
        key = id(d)
        if vn == "canonical":
            canon[key] = r
            return None
        base = canon.get(key)
        if base is None:
            return None
        if not base.get("ok"):
            # the canonical spelling is rejected (C01's business why) - then every other spelling must be rejected too:
            # whether a text is accepted does not depend on its layout or letter case either
            if r.get("ok"):
                return ("canonical-rejected-but-respelled-accepted", {"diag": base.get("diag")})
            return None
        if not r.get("ok"):
            return ("respelled-rejected", {"diag": r.get("diag")})
        try:
            a = gram.project(base["tree"])
            b = gram.project(r["tree"])
        except gram.ProjError as e:
            a, b = json.dumps(base["tree"]), json.dumps(r["tree"])
            return None if gram.strip_tree(base["tree"]) == gram.strip_tree(r["tree"]) else ("respelled-differs(raw)", {})
        df = gram.diff(a, b)
        if df:
            return ("respelled-differs:" + df[0], {"canonical": df[1], "respelled": df[2]})
        ca = sorted(set(x["code"] for x in base.get("analyze_diags", [])))
        cb = sorted(set(x["code"] for x in r.get("analyze_diags", [])))
        if base.get("analyze_ok") != r.get("analyze_ok") or ca != cb:
            return ("respelled-verdict-differs", {"canonical": [base.get("analyze_ok"), ca], "respelled": [r.get("analyze_ok"), cb]})
        return None
    if mode == "c10":
        if not r.get("ok"):
            return None       # not accepted by the parser: outside C10's quantifier
        if r.get("render_ok") is False:
            return ("render-error", {"diags": r.get("render_diags")})
        if r.get("reparse_ok") is False:
            return ("rendered-text-rejected", {"rendered": r.get("rendered"), "diag": r.get("reparse_diag")})
        try:
            a = gram.project(r["tree"])
            b = gram.project(r["re_tree"])
            df = gram.diff(a, b)
        except gram.ProjError:
            df = None if r.get("reparse_eq") else ("<raw>", None, None)
        if df:
            return ("reparsed-differs:" + df[0], {"first": df[1], "second": df[2], "rendered": r.get("rendered")})
        if not r.get("reparse_eq"):
            return ("reparsed-differs(derived-eq)", {"rendered": r.get("rendered")})
        if r.get("rerender_ok") is False:
            return ("rerender-error", {})
        if r.get("rerender_same") is False:
            return ("render-not-fixed-point", {"first": r.get("rendered"), "second": r.get("rerendered")})
        return None
    raise ValueError(mode)


def replay(ds, mode, seed, opts=None, jobs=None):
    """ds: derivations.  Returns (failures [(derivation, variant, text, signature, detail)], stats)."""
    opts = opts or {}
    jobs = jobs or vlib.NCPU
    idx = list(enumerate(ds))
    size = max(50, min(1500, len(idx) // (jobs * 4) + 1))
    chunks = [idx[i:i + size] for i in range(0, len(idx), size)]
    args = [(mode, ch, seed + k, opts) for k, ch in enumerate(chunks)]
    fails = []
    stats = {"cases": 0, "ok": 0}
    vlib.build()
    with ProcessPoolExecutor(max_workers=jobs) as ex:
        for f, st in ex.map(_worker, args):
            for di, vn, text, sig, det in f:
                fails.append((ds[di], vn, text, sig, det))
            stats["cases"] += st["cases"]
            stats["ok"] += st["ok"]
    return fails, stats
