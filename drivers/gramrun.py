"""Developer tool: run Grammar configurations against the parser and summarise disagreements."""
import json
import sys
from collections import Counter

import gram
import gramcheck
import vlib


def run(cfgs, show=25):
    ds, runs = gramcheck.derivations(cfgs)
    texts = [gram.spell(d["toks"])[0] for d in ds]
    res = gramcheck.parse_cases(texts)
    c = Counter()
    ex = {}
    for d, t, r in zip(ds, texts, res):
        if not r.get("ok"):
            k = ("parse-fail" if "diag" in r else "crash", tuple(sorted(x for x in d["labs"] if not x.startswith("op:")))[-3:])
            c[k] += 1
            ex.setdefault(k, (t, (r.get("diag") or {}).get("primary", r)))
            continue
        try:
            got = gram.project(r["tree"])
        except Exception as e:
            k = ("proj", repr(e)[:80])
            c[k] += 1
            ex.setdefault(k, (t, None))
            continue
        exp = gram.denote(d["val"])
        df = gram.diff(exp, got)
        if df:
            k = ("diff", df[0])
            c[k] += 1
            ex.setdefault(k, (t, df[1:]))
    for k, v in c.most_common(show):
        print(v, k)
        print("     ", ex[k][0][:220])
        print("     ", json.dumps(ex[k][1])[:400])
    print("total", len(ds), "ok", len(ds) - sum(c.values()))


if __name__ == "__main__":
    run(sys.argv[1:])
