"""Developer tool (not run by any check): proposes the quarantine list for C10 from a run over the corpus.
A production / literal label is proposed when every derivation that uses it fails the round trip; then pairs
of labels for what remains.  The proposals are reviewed and committed to known_findings.json by hand."""
import json
import sys
from collections import Counter, defaultdict
from itertools import combinations

sys.path.insert(0, "/verif/checks")
import c10
import gram
import gramcheck
import vlib


def main(cfgs):
    cov = {"states": 0, "transitions": 0, "tlc_runs": []}
    ds = gramcheck.derivations(cfgs, cov)
    # derivations the parser rejects are outside C10's quantifier: leave them out of the statistics
    texts = [gram.spell(d["toks"])[0] for d in ds]
    ok = [bool(r.get("ok")) for r in gramcheck.parse_cases(texts, tree=False)]
    ds = [d for d, k in zip(ds, ok) if k]
    fails, stats = gramcheck.replay(ds, "c10", 1, {})
    by = {id(d): (c10.norm_sig(sig), text, det) for d, vn, text, sig, det in fails}
    tot, bad = Counter(), Counter()
    for d in ds:
        for l in d["labs"]:
            tot[l] += 1
            if id(d) in by:
                bad[l] += 1
    q1 = sorted(l for l in tot if bad[l] == tot[l])
    rest = [d for d in ds if id(d) in by and not any(l in q1 for l in d["labs"])]
    cand = Counter()
    for d in rest:
        for a, b in combinations(sorted(d["labs"]), 2):
            cand[(a, b)] += 1
    tot2, bad2 = Counter(), Counter()
    for d in ds:
        if any(l in q1 for l in d["labs"]):
            continue
        for a, b in combinations(sorted(d["labs"]), 2):
            if (a, b) in cand:
                tot2[(a, b)] += 1
                if id(d) in by:
                    bad2[(a, b)] += 1
    q2all = [p for p in cand if bad2[p] == tot2[p]]
    # greedy cover
    q2 = []
    remaining = list(rest)
    while remaining:
        best = max(q2all, key=lambda p: sum(1 for d in remaining if p[0] in d["labs"] and p[1] in d["labs"]), default=None)
        if best is None:
            break
        cov_n = [d for d in remaining if best[0] in d["labs"] and best[1] in d["labs"]]
        if not cov_n:
            break
        q2.append(best)
        remaining = [d for d in remaining if d not in cov_n]

    def example(pred):
        for d in ds:
            if id(d) in by and pred(d):
                return {"source": by[id(d)][1], "signature": by[id(d)][0], "rendered": (by[id(d)][2].get("rendered") or "")[:160]}

    out = {"single": [{"label": l, "n": tot[l], "ex": example(lambda d: l in d["labs"])} for l in q1],
           "pairs": [{"labels": list(p), "n": tot2[p], "ex": example(lambda d: p[0] in d["labs"] and p[1] in d["labs"])} for p in q2],
           "unexplained": [(by[id(d)][1], by[id(d)][0], d["labs"]) for d in remaining[:40]], "n_unexplained": len(remaining)}
    json.dump(out, open("/tmp/kf_c10.json", "w"), indent=1)
    print(len(q1), "single;", len(q2), "pairs;", len(remaining), "unexplained; stats", stats)


if __name__ == "__main__":
    main(sys.argv[1:])
