#!/usr/bin/env python3
"""Developer tool: apply a seeded change to /repo, run the named checks (quick), undo the change.
usage: mutant.py <patch.diff> C01 [C08 ...]"""
import json
import os
import subprocess
import sys
import time

V = os.path.dirname(os.path.dirname(os.path.abspath(__file__)))


def main():
    patch = os.path.abspath(sys.argv[1])
    checks = sys.argv[2:]
    tier = os.environ.get("MUT_TIER", "quick")
    st = subprocess.run(["git", "-C", "/repo", "status", "--porcelain", "--untracked-files=no"], capture_output=True, text=True).stdout
    if st.strip():
        print("repo not clean", st)
        return 2
    r = subprocess.run(["git", "-C", "/repo", "apply", patch], capture_output=True, text=True)
    if r.returncode != 0:
        print("patch does not apply:", r.stderr)
        return 2
    out = {}
    try:
        for c in checks:
            t0 = time.time()
            p = subprocess.run([sys.executable, os.path.join(V, "checks", c.lower() + ".py"), tier], cwd=V, capture_output=True, text=True)
            lines = [l for l in p.stdout.splitlines() if l.startswith("VIOLATION")]
            sigs = [l.strip() for l in p.stderr.splitlines() if l.strip().startswith("signature:")]
            out[c] = {"rc": p.returncode, "violations": len(lines), "signatures": sigs[:8], "wall_s": round(time.time() - t0, 1)}
            print(c, json.dumps(out[c]))
            if p.returncode == 2:
                print(p.stderr[-1500:])
    finally:
        subprocess.run(["git", "-C", "/repo", "checkout", "--", "."], check=True)
    return 0


if __name__ == "__main__":
    sys.exit(main())
