"""Random LSP histories -> recorded traffic -> LspTrace.tla (implementation -> specification)."""
import json
import os
import random
from concurrent.futures import ThreadPoolExecutor

import lspcheck
import lspdrv
import vlib


def gen_history(rng, maxlen, kinds, ntext, nuri=2):
    n = rng.randrange(1, maxlen + 1)
    hist = []
    for i in range(1, n + 1):
        k = rng.choice(kinds)
        if k == "open":
            hist.append({"k": "open", "u": rng.randrange(1, nuri + 1), "t": rng.randrange(1, ntext + 1), "v": i})
        elif k == "open_nf":
            hist.append({"k": "open", "u": 0, "t": rng.randrange(1, ntext + 1), "v": i})
        elif k in ("change0", "change1", "change2"):
            m = int(k[-1])
            hist.append({"k": "change", "u": rng.randrange(1, nuri + 1), "ts": [rng.randrange(1, ntext + 1) for _ in range(m)], "v": i})
        elif k == "semtok":
            hist.append({"k": "semtok", "u": rng.randrange(0, nuri + 1), "id": i})
        elif k == "unkreq":
            hist.append({"k": "unkreq", "id": i})
        elif k == "unknotif":
            hist.append({"k": "unknotif", "w": rng.randrange(0, 5)})
        elif k == "cresp":
            hist.append({"k": "cresp", "id": i})
        elif k == "close":
            hist.append({"k": "close", "u": rng.randrange(1, nuri + 1)})
        elif k == "badreq":
            hist.append({"k": "badreq", "id": i, "w": rng.randrange(0, 5)})
        elif k == "badnotif":
            hist.append({"k": "badnotif", "m": rng.randrange(0, 2), "w": rng.randrange(0, 5)})
    hist.append({"k": "shutdown", "id": n + 1})
    hist.append({"k": "exit"})
    return hist


def doc_states(hist, nuri=2):
    """document state after each notification (the same bookkeeping the spec does; used only to know which
    table entries must be measured)"""
    docs = [0] * nuri
    need_d, need_t = set(), set()
    for m in hist:
        if m["k"] == "open" and m["u"] != 0:
            docs[m["u"] - 1] = m["t"]
        elif m["k"] == "change" and m["ts"]:
            docs[m["u"] - 1] = m["ts"][-1]
        if m["k"] in ("open", "change"):
            need_d.add((tuple(docs), m["u"]))
        if m["k"] == "semtok" and m["u"] != 0:
            need_t.add(docs[m["u"] - 1])
    return need_d, need_t


class Intern:
    def __init__(self):
        self.ids = {}

    def __call__(self, value):
        if value is None:
            return 0
        key = json.dumps(value, sort_keys=True)
        if key not in self.ids:
            self.ids[key] = len(self.ids) + 1
        return self.ids[key]


def trace_of(tid, hist, result, din, tin):
    ev = [{"ev": "reset", "tid": tid}]
    for m in hist:
        e = {"ev": "c2s"}
        e.update(m)
        ev.append(e)
    for o in lspdrv.observe(result["frames"]):
        if o["k"] == "pub":
            ev.append({"ev": "s2c", "k": "pub", "u": o["u"] if isinstance(o["u"], int) else -1, "v": o["v"] if o["v"] is not None else -1,
                       "d": din([list(d) for d in o["diags"]] or [["<none>"]])})
        elif o["k"] == "resp":
            data = None if o["result"] is None else list(o["result"].get("data", []))
            ev.append({"ev": "s2c", "k": "resp", "id": o["id"] if isinstance(o["id"], int) else -1, "tk": tin(data)})
        elif o["k"] == "err":
            ev.append({"ev": "s2c", "k": "err", "id": o["id"] if isinstance(o["id"], int) else -1, "code": o.get("code") or 0})
        else:
            ev.append({"ev": "s2c", "k": "other"})
    ev.append({"ev": "exit", "rc": result["rc"] if result["rc"] is not None else -1})
    return ev


def random_histories(rep, cov, tables, texts, count, maxlen, seed, kinds, prop, nuri=2):
    rng = random.Random(seed)
    hists = [gen_history(rng, maxlen, list(kinds), len(texts), nuri) for _ in range(count)]
    nd, nt = set(), set()
    for h in hists:
        a, b = doc_states(h, nuri)
        nd |= a
        nt |= b
    tables.fill(nd, nt)
    for u in tables.unstable:
        rep.add("fresh-server-diagnostics-not-deterministic", labels={"table"}, detail=u)
    tables.unstable = []
    with ThreadPoolExecutor(max_workers=vlib.NCPU) as ex:
        results = list(ex.map(lambda h: lspdrv.run_server(lspdrv.concretize(h, texts)), hists))
    din, tin = Intern(), Intern()
    diag_tab = [[list(st), u, din([list(d) for d in v] or [["<none>"]])] for (st, u), v in sorted(tables.diag.items())
                if not (v and v[0] == "NO-PUBLISH")]
    tok_tab = [[t, tin(None if v is None else list(v))] for t, v in sorted(tables.tok.items()) if t != 0 and v != "NO-RESPONSE"]
    nchunks = min(8, max(1, count // 20))
    wd = vlib.workdir("%s_lsptrace" % prop.lower())
    paths = []
    nev = 0
    for c in range(nchunks):
        p = os.path.join(wd, "t%d.ndjson" % c)
        with open(p, "w") as f:
            f.write(json.dumps({"ev": "table", "diag": diag_tab, "tok": tok_tab}) + "\n")
            for tid in range(c, count, nchunks):
                for e in trace_of(tid, hists[tid], results[tid], din, tin):
                    f.write(json.dumps(e) + "\n")
                    nev += 1
        paths.append(p)
    with ThreadPoolExecutor(max_workers=nchunks) as ex:
        vals = list(ex.map(lambda p: vlib.tlc_trace("LspTrace.tla", "LspTrace.cfg", p), paths))
    nbad = 0
    for c, v in enumerate(vals):
        cov["states"] += v["states"]
        cov["transitions"] += v["transitions"]
        lines = open(paths[c]).read().splitlines()
        for tid, recno in v["bad"]:
            nbad += 1
            first = json.loads(lines[recno - 1]) if recno - 1 < len(lines) else {}
            sig = "trace-rejected:%s:%s" % (first.get("ev"), first.get("k", first.get("rc")))
            rep.add(sig, labels=lspcheck.labels_of({"hist": hists[tid]}),
                    detail={"history": hists[tid], "first_unmatched_record": first,
                            "observed": lspdrv.observe(results[tid]["frames"]), "rc": results[tid]["rc"],
                            "stderr": results[tid]["stderr"][-400:]},
                    replay={"history": hists[tid], "texts": {str(k): t for k, t in texts.items()}})
    cov["traces_validated_against_impl"] += count
    cov["trace_events"] = cov.get("trace_events", 0) + nev
    cov["trace_rejected"] = cov.get("trace_rejected", 0) + nbad
    if hists:
        cov["samples"].append({"random_history": hists[0][:6], "trace_head": trace_of(0, hists[0], results[0], din, tin)[:5]})
