"""The five document texts of the C11 / C12 / C13 alphabets (ASCII; T1..T4 have equal length on purpose:
a server that keys its memo on anything weaker than the text itself is caught)."""

T_VALID = """TYPE LEVEL : (LOW, HIGH) := LOW; END_TYPE
FUNCTION_BLOCK FB_V
VAR a : INT; b : INT; END_VAR
a := b + 1;
END_FUNCTION_BLOCK
"""
T_LEX = T_VALID.replace("TYPE LEVEL : (LOW, HIGH) := LOW; END_TYPE", "(* lexical error  in  this   document  *)").replace("FB_V", "FB_L").replace("b + 1", "b ? 1")
T_SYN = T_VALID.replace("TYPE LEVEL : (LOW, HIGH) := LOW; END_TYPE", "(* syntax  error  in  this  document  *)").replace("FB_V", "FB_Y").replace("a := b + 1;", "a := := b 1;")
T_SEM = T_VALID.replace("TYPE LEVEL : (LOW, HIGH) := LOW; END_TYPE", "(* semantic error  in  this  document  *)").replace("FB_V", "FB_S").replace("b + 1", "c + 1")
T_DEP = """FUNCTION_BLOCK FB_D
VAR l : LEVEL := HIGH; END_VAR
END_FUNCTION_BLOCK
"""
TEXTS = {1: T_VALID, 2: T_LEX, 3: T_SYN, 4: T_SEM, 5: T_DEP}
NAMES = {0: "-", 1: "valid", 2: "lexical-error", 3: "syntax-error", 4: "semantic-error", 5: "depends-on-other"}
assert len(T_VALID) == len(T_LEX) == len(T_SYN) == len(T_SEM), (len(T_VALID), len(T_LEX), len(T_SYN), len(T_SEM))
