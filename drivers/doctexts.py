"""The five document texts of the C11 / C12 / C13 alphabets (ASCII; T1..T4 have equal length on purpose:
a server that keys its memo on anything weaker than the text itself is caught)."""

T_VALID = """TYPE LEVEL : (LOW, HIGH) := LOW; END_TYPE
FUNCTION_BLOCK FB_V
VAR a : INT; b : INT; END_VAR
a := b + 1;
END_FUNCTION_BLOCK
"""
T_LEX = T_VALID.replace("TYPE LEVEL : (LOW, HIGH) := LOW; END_TYPE", "(* lexical error  in  this   document  *)").replace("FB_V", "FB_L").replace("b + 1", "b ? 1")
T_SYN = T_VALID.replace("TYPE LEVEL : (LOW, HIGH) := LOW; END_TYPE", "(* syntax  error  in  this  document  *)").replace("FB_V", "FB_Y").replace("a := b + 1;", "a := := b 1;")
T_SEM = T_VALID.replace("TYPE LEVEL : (LOW, HIGH) := LOW; END_TYPE", "(* semantic error  in  this  document  *)").replace("FB_V", "FB_S").replace("b + 1", "c + 1")
T_DEP = """FUNCTION_BLOCK FB_D
VAR l : LEVEL := HIGH; END_VAR
END_FUNCTION_BLOCK
"""
# declares LEVEL again (a cross-document problem when T_VALID is open too), far beyond the length of the other texts and
# after multi-byte characters: the labels of one diagnostic then lie in two documents of very different sizes
T_DUP = "(* " + "gr\u00f6\u00dfe \u20ac " * 40 + "*)" + "\n" * 3 + "TYPE LEVEL : (LOW, HIGH, TOP) := LOW; END_TYPE\nFUNCTION_BLOCK FB_X\nVAR a : INT; END_VAR\na := 1;\nEND_FUNCTION_BLOCK\n"
# a document whose syntax tree is deep (a sum of 300 operands, 60 nested IFs) - well inside what `check` handles; only the
# random histories use it (text 7)
T_DEEP = ("FUNCTION_BLOCK FB_DEEP\nVAR a : INT; f : BOOL; END_VAR\na := " + " + ".join(["1"] * 300) + ";\n" + "IF f THEN\n" * 60 + "a := 2;\n" +
          "END_IF;\n" * 60 + "a := ghost;\nEND_FUNCTION_BLOCK\n")
TEXTS = {1: T_VALID, 2: T_LEX, 3: T_SYN, 4: T_SEM, 5: T_DEP, 6: T_DUP, 7: T_DEEP}
NAMES = {7: "deep", 0: "-", 1: "valid", 2: "lexical-error", 3: "syntax-error", 4: "semantic-error", 5: "depends-on-other", 6: "duplicates-the-type-of-valid"}
# vacuity guard: the comment of T_DUP is closed once (a stray second '*)' made the text a syntax error for a whole session:
# the cross-document clause was vacuous)
assert T_DUP.count("*)") == 1 and T_DUP.count("(*") == 1
assert len(T_VALID) == len(T_LEX) == len(T_SYN) == len(T_SEM), (len(T_VALID), len(T_LEX), len(T_SYN), len(T_SEM))
