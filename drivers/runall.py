#!/usr/bin/env python3
"""Developer tool: run every check of MANIFEST.json (tier from argv[1], default quick), sequentially, and summarise."""
import json
import os
import subprocess
import sys
import time

V = os.path.dirname(os.path.dirname(os.path.abspath(__file__)))
m = json.load(open(os.path.join(V, "MANIFEST.json")))
tier = sys.argv[1] if len(sys.argv) > 1 else "quick"
only = set(sys.argv[2:])
bad = 0
for c in m["checks"]:
    if only and c["property_id"] not in only:
        continue
    cmd = c["quick_cmd"] if tier == "quick" else c["thorough_cmd"]
    t0 = time.time()
    p = subprocess.run(cmd, shell=True, cwd=V, capture_output=True, text=True)
    v = [l for l in p.stdout.splitlines() if l.startswith("VIOLATION")]
    k = [l for l in p.stdout.splitlines() if l.startswith("KNOWN-FINDING")]
    print("%s rc=%d violations=%d known=%d %.0fs" % (c["property_id"], p.returncode, len(v), len(k), time.time() - t0), flush=True)
    if p.returncode != 0:
        bad += 1
        print(p.stdout[-1500:])
        print(p.stderr[-2500:])
sys.exit(1 if bad else 0)
