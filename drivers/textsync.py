"""TextSync.tla -> `ironplcc lsp --stdio`: what a document is after a textDocument/didChange.

TLC enumerates (document, range, inserted text) with the positions of the range in UTF-16 code units and the document the
change results in.  The change is sent in the form the server ASKS for in its capabilities: with full synchronisation the
whole resulting text, with incremental synchronisation the range and the inserted text.  Either way the semantic tokens of
the document afterwards must be those a fresh server gives for the resulting text, and the server must live on."""
import json
from concurrent.futures import ThreadPoolExecutor

import lspdrv
import vlib

CH = {"a": "a", "e": "é", "u": "€", "s": "\U0001F600", "n": "\n"}
HEAD = "(*"
TAIL = "*)\nPROGRAM p\nVAR x : INT; END_VAR\nx := 1;\nEND_PROGRAM\n"
URI = lspdrv.URI[3]


def text_of(doc):
    """the characters of the model document are the content of a comment (every character sequence is valid there)"""
    return HEAD + "".join(CH[c] for c in doc) + TAIL


def lsp_pos(p):
    line, ch = p
    return {"line": line, "character": ch + (len(HEAD) if line == 0 else 0)}


_SYNC = {}


def sync_kind():
    """1 = full, 2 = incremental (the capability the server advertises in its initialize result)"""
    if "k" not in _SYNC:
        r = lspdrv.run_server([lspdrv.m_shutdown(1), lspdrv.M_EXIT])
        k = None
        for f in r["frames"]:
            if f.get("id") == 0 and "result" in f:
                ts = (f["result"].get("capabilities") or {}).get("textDocumentSync")
                k = ts.get("change") if isinstance(ts, dict) else ts
        if k not in (1, 2):
            raise vlib.ToolError("the server does not advertise full or incremental text synchronisation: %r" % (k,))
        _SYNC["k"] = k
    return _SYNC["k"]


def change_of(edit, kind):
    after = text_of(edit["after"])
    if kind == 1:
        return {"text": after}
    return {"range": {"start": lsp_pos(edit["from"]), "end": lsp_pos(edit["to"])}, "text": "".join(CH[c] for c in edit["ins"])}


def _tokens_of(res, rid):
    for o in lspdrv.observe(res["frames"]):
        if o["k"] in ("resp", "err") and o.get("id") == rid:
            if o["k"] != "resp":
                return "ERROR"
            return None if o["result"] is None else tuple(o["result"].get("data", []))
    return "NO-RESPONSE"


def fresh_tokens(docs):
    """tokens a fresh server gives for each text (opened whole); 25 texts per process"""
    docs = sorted(set(docs))
    out = {}
    batches = [docs[i:i + 25] for i in range(0, len(docs), 25)]

    def run(b):
        msgs = []
        for k, d in enumerate(b):
            msgs.append(lspdrv.m_open(URI, text_of(d), 2 * k + 1))
            msgs.append(lspdrv.m_semtok(2 * k + 2, URI))
        msgs += [lspdrv.m_shutdown(900000), lspdrv.M_EXIT]
        r = lspdrv.run_server(msgs, timeout=120)
        return [_tokens_of(r, 2 * k + 2) for k in range(len(b))]

    with ThreadPoolExecutor(max_workers=vlib.NCPU) as ex:
        for b, toks in zip(batches, ex.map(run, batches)):
            for d, t in zip(b, toks):
                out[d] = t
    return out


def run(rep, cov, tier, prop="C12"):
    kind = sync_kind()
    r = vlib.tlc_check("TextSync.tla", "MC_TextSync_2.cfg" if tier == "quick" else "MC_TextSync_4.cfg", workers=4)
    cov["states"] += r["states"]
    cov["transitions"] += r["transitions"]
    beh = [b for b in r["replay"] if b.get("R") == "sync"]
    cov["tlc_runs"].append({"cfg": "MC_TextSync", "states": r["states"], "behaviours": len(beh)})
    want = fresh_tokens([tuple(b["final"]) for b in beh])
    bad_fresh = [d for d, t in want.items() if t in ("ERROR", "NO-RESPONSE", None)]
    if bad_fresh:
        raise vlib.ToolError("a fresh server gives no tokens for a model document: %r" % (bad_fresh[0],))
    batches = [beh[i:i + 15] for i in range(0, len(beh), 15)]

    def session(b):
        msgs = []
        n = 0
        ids = []
        for x in b:
            e = x["edits"][0]
            n += 1
            msgs.append(lspdrv.m_open(URI, text_of(e["before"]), n))
            n += 1
            msgs.append({"jsonrpc": "2.0", "method": "textDocument/didChange",
                         "params": {"textDocument": {"uri": URI, "version": n}, "contentChanges": [change_of(e, kind)]}})
            n += 1
            msgs.append(lspdrv.m_semtok(n, URI))
            ids.append(n)
        msgs += [lspdrv.m_shutdown(900000), lspdrv.M_EXIT]
        res = lspdrv.run_server(msgs, timeout=120)
        return res["rc"], [_tokens_of(res, i) for i in ids], res["stderr"][-300:]

    with ThreadPoolExecutor(max_workers=vlib.NCPU) as ex:
        outs = list(ex.map(session, batches))
    n = 0
    for b, (rc, toks, err) in zip(batches, outs):
        for x, t in zip(b, toks):
            n += 1
            e = x["edits"][0]
            exp = want[tuple(x["final"])]
            sig = None
            if t == "NO-RESPONSE":
                sig = "server-died-or-did-not-answer:rc=%s" % rc
            elif t != exp:
                sig = "document-after-change-is-not-the-spliced-text"
            if sig:
                rep.add("textsync:%s:%s" % ("full" if kind == 1 else "incremental", sig), labels={"textsync"},
                        detail={"before": e["before"], "range": [e["from"], e["to"]], "inserted": e["ins"], "after": e["after"],
                                "tokens": t, "tokens_of_a_fresh_server": exp, "stderr": err},
                        replay={"before": text_of(e["before"]), "change": change_of(e, kind), "after": text_of(e["after"])})
                break
    cov["textsync_kind_advertised"] = "full" if kind == 1 else "incremental"
    cov["textsync_changes_replayed"] = n
    cov["traces_validated_against_impl"] += n
