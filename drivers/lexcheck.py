"""Lexer-level binding: Lexer.tla behaviours -> tokenize_program, and token streams -> LexerTrace.tla."""
import json
import os
import random

import vlib

CONCRETE = {"L": "a", "E": "e", "D": "7", "U": "_", "SP": " ", "TAB": "\t", "LF": "\n", "CR": "\r", "FF": "\f",
            "LP": "(", "RP": ")", "ST": "*", "SL": "/", "Q1": "'", "Q2": '"', "DOT": ".", "COL": ":", "EQ": "=",
            "LT": "<", "GT": ">", "HASH": "#", "SEMI": ";", "PLUS": "+", "MINUS": "-", "COMMA": ",", "AMP": "&",
            "LB": "[", "RB": "]", "X2": "é", "X3": "€", "X4": "\U0001F600", "BAD": "?"}
# other representatives of the same class (used for the randomised second spelling)
ALT = {"L": "bcdfghijklmnopqrstuvwxyzABCDFGHIJKLMNOPQRSTUVWXYZ", "E": "eE", "D": "0123456789", "X2": "éüß§",
       "X3": "€中☃", "X4": "\U0001F600\U0001F4A9", "BAD": "?@$!~`\\^|"}


def concretize(classes, rng=None):
    if rng is None:
        return "".join(CONCRETE[c] for c in classes)
    out = []
    for c in classes:
        if c in ALT and rng.random() < 0.7:
            out.append(rng.choice(ALT[c]))
        else:
            out.append(CONCRETE[c])
    return "".join(out)


KEYWORDISH = None


def text_is_safe(text):
    """Random letters may accidentally spell a keyword / based-literal prefix; such texts are not what the
    class string stands for, so the randomised spelling falls back to the canonical one."""
    import re
    global KEYWORDISH
    if KEYWORDISH is None:
        src = open(os.path.join(vlib.REPO, "compiler", "parser", "src", "token.rs")).read()
        kws = set(m.lower() for m in re.findall(r'#\[token\("([A-Za-z_][A-Za-z_0-9]*)"', src))
        KEYWORDISH = kws
    for w in re.findall(r"[A-Za-z_][A-Za-z0-9_]*", text):
        if w.lower() in KEYWORDISH:
            return False
        # digits swallow underscores: in '4_eN' the lexer reads '4_' and then the keyword EN
        if w.lstrip("_0123456789").lower() in KEYWORDISH:
            return False
    if re.search(r"(?<![0-9_])(2|8|16)#", text) or "%" in text:
        return False
    return True


def impl_lexemes(res):
    """tokens + lexical errors of one `vph lex` result merged and sorted by start offset."""
    ev = []
    for t in res.get("toks", []):
        ev.append({"k": t[0], "s": t[1], "e": t[2], "l": t[3], "c": t[4], "text": t[5], "fid": t[6]})
    for d in res.get("diags", []):
        if d["code"] == "P0031":
            ev.append({"k": "LexErr", "s": d["primary"]["start"], "e": d["primary"]["end"], "l": None, "c": None})
    ev.sort(key=lambda x: (x["s"], 0 if x["k"] != "LexErr" else 1))
    return ev


def is_synth(x):
    """the empty ';' that xform_tokens.rs inserts after END_IF (it carries the next token's span)"""
    return x["k"] == "Semicolon" and x.get("text") == ""


def compare_behaviour(text, expected, res):
    """expected: list of [kind,s,e,line,colB,colC,colU].  Returns None if the implementation's lexeme
    sequence equals it, else a short mismatch signature."""
    if "panic" in res or "abort" in res or "timeout" in res:
        return "crash"
    ev = [x for x in impl_lexemes(res) if not is_synth(x)]
    if len(ev) != len(expected):
        return "lexeme-count"
    tb = text.encode("utf-8")
    for x, y in zip(ev, expected):
        if x["s"] != y[1] or x["e"] != y[2]:
            return "span"
        if x["k"] != y[0]:
            return "kind:%s" % y[0]
        if x["k"] == "LexErr":
            continue
        if x["text"].encode("utf-8") != tb[x["s"]:x["e"]]:
            return "slice"
        if x["l"] != y[3]:
            return "line"
        if x["c"] not in (y[4], y[5], y[6]):
            return "col"
    return None


def prev_kinds(expected, upto):
    return [e[0] for e in expected[:upto]]


def mismatch_context(expected, res, text):
    """Which kind of lexeme precedes the first position error: used for the finding signature."""
    ev = impl_lexemes(res)
    for n, (x, y) in enumerate(zip(ev, expected)):
        if x["k"] == "LexErr":
            continue
        if x["s"] != y[1] or x["e"] != y[2] or x["k"] != y[0]:
            return "?"
        if x["l"] != y[3] or x["c"] not in (y[4], y[5], y[6]):
            prev = expected[n - 1][0] if n else "start"
            return prev
    return "?"


# ------------------------------------------------------------------------------------------
# trace events for LexerTrace.tla
# ------------------------------------------------------------------------------------------
def preprocess(text):
    """The documented OSCAT preprocessing, stated independently of preprocessor.rs: the text between the
    first (*@KEY@:DESCRIPTION*) marker and the first (*@KEY@:END_DESCRIPTION*) marker is trivia; it is
    blanked byte for byte (line feeds kept) so that every offset, line and column is preserved."""
    a, b = "(*@KEY@:DESCRIPTION*)", "(*@KEY@:END_DESCRIPTION*)"
    i, j = text.find(a), text.find(b)
    if i < 0 or j < 0 or not i < j:
        return text
    mid = "".join("\n" if c == "\n" else " " * len(c.encode("utf-8")) for c in text[i + len(a):j])
    return text[:i + len(a)] + mid + text[j:]


def trace_events(text, res, tid):
    """One `reset` + one event per lexeme.  Slice facts are computed here, independently of the lexer."""
    tb = preprocess(text).encode("utf-8")
    out = [{"ev": "reset", "tid": tid, "len": len(tb)}]
    for x in impl_lexemes(res):
        if is_synth(x):
            # synthetic terminator inserted after END_IF: zero-width, carries the next token's position
            out.append({"ev": "synth", "s": x["s"], "l": x["l"], "c": x["c"]})
            continue
        sl = tb[x["s"]:x["e"]]
        nl = sl.count(b"\n")
        tail = sl[sl.rfind(b"\n") + 1:] if nl else sl
        try:
            tail_s = tail.decode("utf-8")
            boundary = True
            sl.decode("utf-8")
        except UnicodeDecodeError:
            tail_s = ""
            boundary = False
        e = {"ev": "tok" if x["k"] != "LexErr" else "lexerr", "s": x["s"], "e": x["e"], "nl": nl,
             "tb": len(tail), "tc": len(tail_s), "tu": len(tail_s.encode("utf-16-le")) // 2,
             "bd": boundary}
        if x["k"] != "LexErr":
            e.update({"l": x["l"], "c": x["c"], "eq": x["text"].encode("utf-8") == sl})
        out.append(e)
    out.append({"ev": "end"})
    return out
