"""Realisations of a declaration graph (Recursion.tla: nodes 1..n, edge a -> b = "a refers to b") as IEC source text.
Shared by C07 (recursion <=> cycle) and C04 (deep / wide graphs, every declaration written twice)."""


def outs(g, i):
    return sorted(b for a, b in g["edges"] if a == i)


def realise_fb(g, ref="N%d", arrays=False):
    """ref: how a reference to node j is spelled (names are case-insensitive: 'n3' is N3)
    arrays: every second edge is an ARRAY of instances (a block that contains an array of instances of itself contains
    instances of itself)"""
    t = ""
    for i in range(1, g["n"] + 1):
        t += "FUNCTION_BLOCK N%d\n  VAR\n" % i
        for k, j in enumerate(outs(g, i)):
            if arrays and (i + k) % 2 == 0:
                t += "    e%d : ARRAY [1..2] OF %s;\n" % (j, ref % j)
                continue
            t += "    e%d : %s;\n" % (j, ref % j)
        t += "    x : INT;\n  END_VAR\n  x := 1;\nEND_FUNCTION_BLOCK\n"
    return t


def realise_struct(g, alias=False, ref="N%d", aliases_twice=False, arrays=False):
    t = ""
    for i in range(1, g["n"] + 1):
        o = outs(g, i)
        if alias and len(o) == 1:
            t += ("TYPE\n  N%d : %s;\nEND_TYPE\n" % (i, ref % o[0])) * (2 if aliases_twice else 1)
            continue
        t += "TYPE\n  N%d : STRUCT\n" % i
        for k, j in enumerate(o):
            if arrays and (i + k) % 2 == 0:
                t += "    f%d : ARRAY [0..1] OF %s;\n" % (j, ref % j)
                continue
            t += "    f%d : %s;\n" % (j, ref % j)
        t += "    v : INT;\n  END_STRUCT;\nEND_TYPE\n"
    return t


def realise_mixed(g, parity):
    """nodes of one parity are function blocks, the others structures: an edge a -> b is a variable (in a function
    block) or an element (in a structure) of type b - cycles may alternate between the two kinds of declaration"""
    t = ""
    for i in range(1, g["n"] + 1):
        o = outs(g, i)
        if i % 2 == parity:
            t += "FUNCTION_BLOCK N%d\n  VAR\n" % i
            for j in o:
                t += "    e%d : N%d;\n" % (j, j)
            t += "    x : INT;\n  END_VAR\n  x := 1;\nEND_FUNCTION_BLOCK\n"
        else:
            t += "TYPE\n  N%d : STRUCT\n" % i
            for j in o:
                t += "    f%d : N%d;\n" % (j, j)
            t += "    v : INT;\n  END_STRUCT;\nEND_TYPE\n"
    return t


def realise_enum_alias(g, aliases_twice=False, qualified=False):
    """only for graphs whose out-degrees are all <= 1: enumeration aliases; a sink is the enumeration itself.
    aliases_twice: every ALIAS declaration is written twice (the enumerations once): duplicates that must be reported -
    and a walk that follows declarations instead of names has 2^depth paths.
    qualified: the user's variables have initial values written with the prefix of ANOTHER alias of the same enumeration
    (u1 : N1 := N2#V3) - the same value, and no reference between the two aliases."""
    t = ""
    sink = {}

    def sink_of(i, seen=()):
        o = outs(g, i)
        if not o:
            return i
        if i in seen:
            return None
        return sink_of(o[0], seen + (i,))

    for i in range(1, g["n"] + 1):
        sink[i] = sink_of(i)
        o = outs(g, i)
        if not o:
            t += "TYPE\n  N%d : (V%d, W%d) := V%d;\nEND_TYPE\n" % (i, i, i, i)
        else:
            t += ("TYPE\n  N%d : N%d;\nEND_TYPE\n" % (i, o[0])) * (2 if aliases_twice else 1)
    # a user so that the alias chain is walked
    t += "FUNCTION_BLOCK USER\n  VAR\n"
    for i in range(1, g["n"] + 1):
        init = ""
        if qualified and sink[i] is not None:
            others = [j for j in range(1, g["n"] + 1) if j != i and sink[j] == sink[i] and outs(g, j)]
            if others:
                init = " := N%d#V%d" % (others[(i * 7) % len(others)], sink[i])
        t += "    u%d : N%d%s;\n" % (i, i, init)
    t += "  END_VAR\nEND_FUNCTION_BLOCK\n"
    return t


# declarations that have nothing to do with the graph, placed before / after it: a block whose LAST variable is an in-out
# variable, a program that ends with an external declaration, a configuration - whether a unit is recursive does not depend
# on what else is declared, nor on where
CONTEXT_BEFORE = ("FUNCTION_BLOCK CTX_PRE\n  VAR_INPUT\n    e : BOOL;\n  END_VAR\n  VAR\n    d : INT;\n  END_VAR\n  VAR_IN_OUT\n    c : INT;\n  END_VAR\n  d := c + 1;\nEND_FUNCTION_BLOCK\n"
                  "PROGRAM CTX_PRG\n  VAR\n    n : INT;\n  END_VAR\n  VAR_EXTERNAL\n    gx : INT;\n  END_VAR\n  n := gx;\nEND_PROGRAM\n")
CONTEXT_AFTER = ("CONFIGURATION CTX_CFG\n  VAR_GLOBAL\n    gx : INT := 1;\n  END_VAR\n  RESOURCE R ON PLC\n    TASK T (INTERVAL := T#10ms, PRIORITY := 1);\n"
                 "    PROGRAM I WITH T : CTX_PRG;\n  END_RESOURCE\nEND_CONFIGURATION\n")


def in_context(text):
    return CONTEXT_BEFORE + text + CONTEXT_AFTER


def twice(text):
    """every declaration of the unit written twice (duplicate names are a fault the analyzer must REPORT, in time)"""
    return text + text
