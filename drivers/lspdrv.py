"""Black-box driver for `ironplcc lsp --stdio`: a whole client history is piped at once, frames parsed back."""
import json
import os
import subprocess
import threading

import vlib

# document 2 has a name that needs percent-encoding in a URI (a blank and a non-ASCII letter): the same file must be
# recognised whether it is named by a URI, found in the workspace folder or passed to the command line
# ... and documents 1 and 2 have names that differ in letter case only: two documents, not one
URI = {0: "untitled:Untitled-1", 1: "file:///vp/ws/u%20%C3%A9.st", 2: "file:///vp/ws/U%20%C3%A9.st", 3: "file:///vp/ws/c.st"}
# Every document has a second, equivalent spelling of its URI (a letter written as a percent escape): a message
# addresses a DOCUMENT, whichever way its URI is spelled (concretize() alternates the spellings along a history)
URI_ALT = {0: URI[0], 1: "file:///vp/ws/%75%20%C3%A9.st", 2: "file:///vp/ws/%55%20%c3%a9.st", 3: "file:///vp/ws/%63.st"}
URI_INV = {v: k for k, v in URI.items()}
URI_INV.update({v: k for k, v in URI_ALT.items()})


def uri_of(u, n):
    """spelling of document u's URI in the n-th message of a history"""
    return URI_ALT[u] if n % 2 == 0 else URI[u]


def fname(u):
    """the file name document u has on disk"""
    from urllib.parse import unquote
    return unquote(os.path.basename(URI[u]))


def frame(obj):
    b = json.dumps(obj).encode("utf-8")
    return b"Content-Length: %d\r\n\r\n" % len(b) + b


def parse_frames(data):
    out = []
    i = 0
    while True:
        j = data.find(b"\r\n\r\n", i)
        if j < 0:
            break
        head = data[i:j].decode("ascii", "replace")
        n = None
        for line in head.split("\r\n"):
            if line.lower().startswith("content-length:"):
                n = int(line.split(":")[1])
        if n is None:
            break
        body = data[j + 4:j + 4 + n]
        if len(body) < n:
            break
        try:
            out.append(json.loads(body))
        except ValueError:
            out.append({"_unparsable": body.decode("utf-8", "replace")})
        i = j + 4 + n
    return out


INIT = [
    {"jsonrpc": "2.0", "id": 0, "method": "initialize", "params": {"processId": None, "rootUri": None, "capabilities": {}}},
    {"jsonrpc": "2.0", "method": "initialized", "params": {}},
]


def m_open(uri, text, version):
    return {"jsonrpc": "2.0", "method": "textDocument/didOpen",
            "params": {"textDocument": {"uri": uri, "languageId": "61131-3-st", "version": version, "text": text}}}


def m_change(uri, texts, version):
    return {"jsonrpc": "2.0", "method": "textDocument/didChange",
            "params": {"textDocument": {"uri": uri, "version": version}, "contentChanges": [{"text": t} for t in texts]}}


def m_semtok(rid, uri):
    return {"jsonrpc": "2.0", "id": rid, "method": "textDocument/semanticTokens/full",
            "params": {"textDocument": {"uri": uri}}}


UNKNOWN_REQ = ["textDocument/hover", "textDocument/completion", "workspace/symbol", "ironplc/unknown"]
UNKNOWN_NOTIF = ["textDocument/didSave", "workspace/didChangeConfiguration", "$/setTrace", "ironplc/unknownNotification", "$/cancelRequest"]


def m_unkreq(rid, which=0):
    meth = UNKNOWN_REQ[which % len(UNKNOWN_REQ)]
    params = {"textDocument": {"uri": URI[1]}, "position": {"line": 0, "character": 0}} if meth.startswith("textDocument") else {"query": "x"}
    return {"jsonrpc": "2.0", "id": rid, "method": meth, "params": params}


def m_unknotif(which=0, last_request=None):
    meth = UNKNOWN_NOTIF[which % len(UNKNOWN_NOTIF)]
    if meth == "$/cancelRequest":
        return {"jsonrpc": "2.0", "method": meth, "params": {"id": last_request if last_request is not None else 1}}
    params = {"textDocument": {"uri": URI[1]}} if meth.startswith("textDocument") else {"value": "off", "settings": {}}
    return {"jsonrpc": "2.0", "method": meth, "params": params}


def m_cresp(rid):
    return {"jsonrpc": "2.0", "id": 1000 + rid, "result": None}


# Well-formed JSON-RPC whose params do not fit the method (Lsp.tla BadParamsReq / BadParamsNotif; w selects the shape)
_OMIT = object()
BAD_SHAPES = [{}, None, _OMIT, {"textDocument": 5}, {"textDocument": {"uri": "this is not a URI"}}]


def _with_params(msg, w):
    p = BAD_SHAPES[w % len(BAD_SHAPES)]
    if p is not _OMIT:
        msg["params"] = p
    return msg


def m_badreq(rid, w):
    return _with_params({"jsonrpc": "2.0", "id": rid, "method": "textDocument/semanticTokens/full"}, w)


def m_badnotif(m, w):
    meth = "textDocument/didOpen" if m == 0 else "textDocument/didChange"
    msg = _with_params({"jsonrpc": "2.0", "method": meth}, w)
    if w % len(BAD_SHAPES) == 4:
        # a document identifier that looks right except for one member of the wrong type
        msg["params"] = ({"textDocument": {"uri": URI[1], "languageId": "61131-3-st", "version": "one", "text": "x"}} if m == 0 else
                         {"textDocument": {"uri": URI[1]}, "contentChanges": [{"text": "x"}]})
    return msg


def m_close(uri):
    return {"jsonrpc": "2.0", "method": "textDocument/didClose", "params": {"textDocument": {"uri": uri}}}


def m_shutdown(rid):
    return {"jsonrpc": "2.0", "id": rid, "method": "shutdown", "params": None}


M_EXIT = {"jsonrpc": "2.0", "method": "exit", "params": None}


WS_PREFIX = "file:///vp/ws/"


def run_server(messages, timeout=30, close_stdin=True, workspace=None):
    """messages: list of JSON-RPC objects sent after initialization.  Returns dict(frames, rc, timeout).
    workspace: a real directory; the server is started with it as its workspace folder and the URIs file:///vp/ws/<name>
    of the message vocabulary denote the files <workspace>/<name> (substituted on the way out and back)."""
    vlib.build()
    init = INIT
    if workspace is not None:
        wsuri = "file://" + os.path.abspath(workspace).rstrip("/") + "/"
        init = [dict(INIT[0], params=dict(INIT[0]["params"], rootUri=wsuri.rstrip("/"),
                                           workspaceFolders=[{"uri": wsuri.rstrip("/"), "name": "ws"}])), INIT[1]]
        messages = json.loads(json.dumps(list(messages)).replace(WS_PREFIX, wsuri))
    data = b"".join(frame(m) for m in init + list(messages))
    env = dict(os.environ)
    env.pop("RUST_LOG", None)
    p = subprocess.Popen([vlib.IRONPLCC, "lsp", "--stdio"], stdin=subprocess.PIPE, stdout=subprocess.PIPE,
                         stderr=subprocess.PIPE, env=env)
    try:
        o, e = p.communicate(data, timeout=timeout)
        rc = p.returncode
        to = False
    except subprocess.TimeoutExpired:
        p.kill()
        o, e = p.communicate()
        rc = None
        to = True
    if workspace is not None:
        o = o.replace(wsuri.encode("utf-8"), WS_PREFIX.encode("utf-8"))     # same length is not needed: frames are re-parsed
        frames = parse_frames_lenient(o)
    else:
        frames = parse_frames(o)
    return {"frames": frames, "rc": rc, "timeout": to, "stderr": e.decode("utf-8", "replace")[-2000:]}


def parse_frames_lenient(data):
    """like parse_frames, for a byte stream in which URIs were substituted (Content-Length no longer exact): the
    bodies are found by scanning from each header to the next header"""
    out = []
    parts = data.split(b"Content-Length:")
    for part in parts[1:]:
        j = part.find(b"\r\n\r\n")
        if j < 0:
            continue
        body = part[j + 4:]
        try:
            out.append(json.loads(body))
        except ValueError:
            out.append({"_unparsable": body.decode("utf-8", "replace")})
    return out


def concretize(hist, texts, always_close=True):
    """Lsp.tla history (list of records) -> JSON-RPC messages.  texts: index -> document text."""
    msgs = []
    n = 0
    for m in hist:
        n += 1
        k = m["k"]
        if k == "ws":
            continue          # the content of the workspace folder at start-up: no message (see run_server(workspace=...))
        if k == "open":
            msgs.append(m_open(uri_of(m["u"], n), texts[m["t"]], m["v"]))
        elif k == "change":
            msgs.append(m_change(uri_of(m["u"], n), [texts[t] for t in m["ts"]], m["v"]))
        elif k == "semtok":
            msgs.append(m_semtok(m["id"], uri_of(m["u"], n + 1)))
        elif k == "unkreq":
            msgs.append(m_unkreq(m["id"], m["id"]))
        elif k == "unknotif":
            reqs = [x["id"] for x in hist[:n - 1] if x["k"] in ("semtok", "unkreq")]
            msgs.append(m_unknotif(m.get("w", n), reqs[-1] if reqs else None))
        elif k == "cresp":
            msgs.append(m_cresp(m["id"]))
        elif k == "close":
            msgs.append(m_close(uri_of(m["u"], n)))
        elif k == "badreq":
            msgs.append(m_badreq(m["id"], m["w"]))
        elif k == "badnotif":
            msgs.append(m_badnotif(m["m"], m["w"]))
        elif k == "shutdown":
            msgs.append(m_shutdown(m["id"]))
        elif k == "exit":
            msgs.append(M_EXIT)
        else:
            raise vlib.ToolError("unknown message kind " + k)
    if always_close and (not hist or hist[-1]["k"] != "exit"):
        msgs.append(m_shutdown(900000))
        msgs.append(M_EXIT)
    return msgs


def observe(frames):
    """server -> client frames after the initialize response, abstracted to the vocabulary of Lsp.tla"""
    obs = []
    for f in frames:
        if f.get("id") == 0 and "result" in f and "capabilities" in (f.get("result") or {}):
            continue
        if f.get("method") == "textDocument/publishDiagnostics":
            p = f["params"]
            diags = sorted((d.get("code"), d["range"]["start"]["line"], d["range"]["start"]["character"],
                            d["range"]["end"]["line"], d["range"]["end"]["character"])
                           for d in p.get("diagnostics", []))
            obs.append({"k": "pub", "u": URI_INV.get(p["uri"], p["uri"]), "v": p.get("version"), "diags": [list(x) for x in diags]})
        elif "id" in f and "method" not in f:
            if "error" in f and f["error"] is not None:
                obs.append({"k": "err", "id": f["id"], "code": f["error"].get("code")})
            else:
                obs.append({"k": "resp", "id": f["id"], "result": f.get("result")})
        elif "method" in f and "id" in f:
            obs.append({"k": "s2c_request", "method": f["method"], "id": f["id"]})
        else:
            obs.append({"k": "other", "frame": f})
    return obs


def legend(frames):
    for f in frames:
        if f.get("id") == 0 and "result" in f:
            try:
                return f["result"]["capabilities"]["semanticTokensProvider"]["legend"]["tokenTypes"]
            except (KeyError, TypeError):
                return None
    return None
