"""C15, realistic documents: repository sources, their trivia mutants and layout probes (comments spanning several
lines, CRLF, multi-byte characters, tokens after blank lines).

The expected highlighted lexemes of such a document are not enumerable by Lexer.tla's class strings; they are
obtained from the implementation's own token stream AFTER that stream has been validated by TLC as a behaviour of
the position machine (LexerTrace.tla: tiling, line / column bookkeeping) - a rejected stream is C05's business and
the document is left out.  Positions and lengths are then recomputed here from the text alone (offset -> line,
column in bytes / scalar values / UTF-16 units); the class of each kind comes from the specification's ClassOf
table printed by TLC."""
import json
import os
import random

import corpus
import lexcheck
import vlib

PROBES = [
    "PROGRAM p\n(* one\n   two\n   three *)\nVAR x : INT; END_VAR\nx := 1;\nEND_PROGRAM\n",
    "PROGRAM p\r\n(* one\r\n\r\n\r\n   four *) VAR x : INT; END_VAR\r\nx := 1;\r\nEND_PROGRAM\r\n",
    "(* a\n\n\n\n b *)(* c\n d *) PROGRAM p END_PROGRAM",
    "PROGRAM p\n\n\n\n   VAR\n\n x : INT; (* é€\U0001F600\n\U0001F600 *) y : INT; END_VAR\nEND_PROGRAM",
    "PROGRAM p VAR s : STRING := 'é€\U0001F600'; t : INT; END_VAR (* é *) t := 1; END_PROGRAM",
    "\n\n\nPROGRAM p END_PROGRAM",
    "PROGRAM p // line comment\n// another\n\n VAR x : INT; END_VAR x := x + 1; END_PROGRAM",
    "FUNCTION_BLOCK f VAR_INPUT RETAIN a AT %IX1.2 : BOOL; END_VAR VAR CONSTANT k : INT := 16#FF; END_VAR END_FUNCTION_BLOCK",
    # documents being typed: the text ends after a keyword that may be followed by an optional terminator, then trivia
    "PROGRAM p VAR x : INT; END_VAR IF x > 0 THEN x := 1; END_IF (* drained *)",
    "PROGRAM p\r\nVAR x : INT; END_VAR\r\nIF x > 0 THEN\r\n  x := 1;\r\nEND_IF (* a *) (* b *)\r\n",
    "PROGRAM p VAR x : INT; END_VAR IF x > 0 THEN x := 1; END_IF\n// tail\n",
    "PROGRAM p VAR x : INT; END_VAR x := 1; (* last *)",
]


def positions(tb, s):
    """offset -> (line, col bytes, col chars, col utf16), all 0-based"""
    line = tb.count(b"\n", 0, s)
    ls = tb.rfind(b"\n", 0, s) + 1
    seg = tb[ls:s].decode("utf-8", "replace")
    return line, s - ls, len(seg), len(seg.encode("utf-16-le")) // 2


def semtok_documents(tier, seed, class_table, kw_default, cov):
    rng = random.Random(seed + 15)
    texts = list(PROBES)
    nvar = 2 if tier == "quick" else 10
    for name, t in corpus.repo_sources():
        if len(t) > 20000:
            continue
        texts.append(t)
        for _ in range(nvar):
            texts.append(corpus.mutate_trivia(t, rng, n=8))
    # sentences of the reference grammar (the sweep configurations of Grammar.tla: every keyword, every literal form), so
    # that every kind of lexeme the parser knows meets the legend table: greedily those that bring a token not seen yet,
    # plus a sample; canonical spelling and one spelling with random trivia and case
    import gram
    import gramcheck
    seen_tokens = set()
    picked = []
    ds = gramcheck.derivations(["SwExpr", "SwStmt", "SwTypes", "SwFb", "SwProg", "SwFunc", "SwSfc", "SwConfig"], cov)
    for k, d in enumerate(ds):
        toks = set((c, t.upper() if c == "kw" else t) for c, t, _ in d["toks"] if c != "id")
        if not toks <= seen_tokens or k % (40 if tier == "quick" else 8) == 0:
            seen_tokens |= toks
            picked.append(d)
    for d in picked:
        texts.append(gram.spell(d["toks"])[0])
        texts.append(gram.spell(d["toks"], rng, trivia=True, case=True)[0])
    cov["grammar_sentences_as_documents"] = len(picked)
    cov["distinct_non_identifier_tokens_in_them"] = len(seen_tokens)
    # documents touched by the (documented) OSCAT preprocessing are C05's subject
    texts = [t for t in texts if lexcheck.preprocess(t) == t]
    res = vlib.harness("lex", [{"id": i, "text": t} for i, t in enumerate(texts)])
    wd = vlib.workdir("c15_trace")
    nchunks = 4
    files = [open(os.path.join(wd, "t%d.ndjson" % k), "w") for k in range(nchunks)]
    usable = set()
    for i, (t, r) in enumerate(zip(texts, res)):
        if "toks" not in r:
            continue
        usable.add(i)
        for e in lexcheck.trace_events(t, r, i):
            files[i % nchunks].write(json.dumps(e) + "\n")
    for f in files:
        f.close()
    from concurrent.futures import ThreadPoolExecutor
    with ThreadPoolExecutor(max_workers=nchunks) as ex:
        vals = list(ex.map(lambda p: vlib.tlc_trace("LexerTrace.tla", "LexerTrace.cfg", p), [f.name for f in files]))
    rejected = set()
    for v in vals:
        cov["states"] += v["states"]
        cov["transitions"] += v["transitions"]
        rejected |= set(tid for tid, _ in v["bad"])
    docs = []
    for i in sorted(usable - rejected):
        t, r = texts[i], res[i]
        tb = t.encode("utf-8")
        ev = [x for x in lexcheck.impl_lexemes(r) if not lexcheck.is_synth(x)]
        err = any(x["k"] == "LexErr" for x in ev)
        hl = []
        for x in ev:
            if x["k"] == "LexErr":
                continue
            cls = class_table.get(x["k"], kw_default)
            if cls == ["none"]:
                continue
            line, cb, cc, cu = positions(tb, x["s"])
            sl = tb[x["s"]:x["e"]].decode("utf-8", "replace")
            hl.append([line, cb, cc, cu, x["e"] - x["s"], len(sl), len(sl.encode("utf-16-le")) // 2, x["k"]])
        docs.append({"classes": None, "text": t, "hl": hl, "err": err, "labels": {"generated"}})
    # a document whose token stream was rejected is C05's business as far as positions go - but the comments of its text are
    # known without any lexer: it stays in the corpus with an empty expectation list and is judged by the comment oracle only
    for i in sorted(usable & rejected):
        if not any(x["k"] == "LexErr" for x in lexcheck.impl_lexemes(res[i])):
            docs.append({"classes": None, "text": texts[i], "hl": None, "err": False, "labels": {"generated", "comments-only"}})
    cov["generated_documents"] = len(docs)
    cov["generated_documents_left_to_C05"] = len(rejected)
    return docs
