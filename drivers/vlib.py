"""Shared machinery for the ironplc verification checks (stdlib only).

 * build()            - rebuilds the harness and the real `ironplcc` binary from /repo's working tree
 * Harness            - batch runner for `vph <mode>` with crash / hang attribution
 * tlc()              - runs TLC on a spec/cfg, returns statistics and the REPLAY records it printed
 * tlc_trace()        - validates an ndjson trace against a *Trace.tla spec
 * Findings / report  - known-findings triage, VIOLATION / KNOWN-FINDING lines, replay files, evidence
"""
import hashlib
import json
import os
import re
import shutil
import subprocess
import sys
import threading
import time
from concurrent.futures import ThreadPoolExecutor

VERIF = os.path.dirname(os.path.dirname(os.path.abspath(__file__)))
REPO = os.environ.get("VERIF_REPO", "/repo")
SPEC = os.path.join(VERIF, "spec")
BUILD = os.path.join(VERIF, "build")
TARGET = os.path.join(BUILD, "target")
WORK = os.path.join(BUILD, "work")
VPH = os.path.join(TARGET, "debug", "vph")
IRONPLCC = os.path.join(TARGET, "debug", "ironplcc")
EVIDENCE = os.path.join(VERIF, "evidence")
REPLAYS = os.path.join(VERIF, "replays")
CFG_FLAGS = "--cfg ironplc_verif --check-cfg cfg(ironplc_verif)"
NCPU = os.cpu_count() or 4

TIER = os.environ.get("VERIF_TIER", "quick")
try:
    SEED = int(os.environ.get("VERIF_SEED", "20261002"))
except ValueError:
    SEED = 20261002


class ToolError(Exception):
    """Something in the machinery (not in ironplc) failed: exit status 2, never a VIOLATION."""


def log(*a):
    print(*a, file=sys.stderr, flush=True)


def workdir(name):
    d = os.path.join(WORK, name)
    shutil.rmtree(d, ignore_errors=True)
    os.makedirs(d, exist_ok=True)
    return d


# --------------------------------------------------------------------------------------------
# build
# --------------------------------------------------------------------------------------------
_built = False


def build():
    """Rebuild harness + ironplcc from the current working tree of /repo (dev profile, hooks cfg on)."""
    global _built
    if _built or os.environ.get("VERIF_NOBUILD") == "1":
        _built = True
        return
    os.makedirs(BUILD, exist_ok=True)
    env = dict(os.environ)
    env["CARGO_NET_OFFLINE"] = "true"
    env["CARGO_TARGET_DIR"] = TARGET
    env["RUSTFLAGS"] = CFG_FLAGS
    lock = os.path.join(BUILD, "cargo.lock")
    import fcntl
    with open(lock, "w") as lf:
        fcntl.flock(lf, fcntl.LOCK_EX)
        t0 = time.time()
        r = subprocess.run(["cargo", "build", "--offline", "--quiet"], cwd=os.path.join(VERIF, "harness"),
                           env=env, capture_output=True, text=True)
        if r.returncode != 0:
            raise ToolError("harness build failed:\n" + r.stderr[-4000:])
        r = subprocess.run(["cargo", "build", "--offline", "--quiet", "--bin", "ironplcc",
                            "--manifest-path", os.path.join(REPO, "compiler", "plc2x", "Cargo.toml")],
                           env=env, capture_output=True, text=True)
        if r.returncode != 0:
            raise ToolError("ironplcc build failed:\n" + r.stderr[-4000:])
        log("[build] %.1fs" % (time.time() - t0))
    _built = True


# --------------------------------------------------------------------------------------------
# harness batch runner
# --------------------------------------------------------------------------------------------
def _run_chunk(mode, cases, per_case_timeout):
    """Runs cases through one vph process; restarts after a crash or hang.  Returns id -> result."""
    results = {}
    todo = list(cases)
    while todo:
        p = subprocess.Popen([VPH, mode], stdin=subprocess.PIPE, stdout=subprocess.PIPE,
                             stderr=subprocess.DEVNULL)
        feeder_cases = list(todo)

        def feed():
            try:
                for c in feeder_cases:
                    p.stdin.write((json.dumps(c) + "\n").encode())
                p.stdin.close()
            except (BrokenPipeError, OSError):
                pass

        th = threading.Thread(target=feed, daemon=True)
        th.start()
        done = 0
        last = [time.time()]
        cpu_mark = [0.0]
        hung = [False]
        stalled = [False]

        def child_cpu():
            try:
                with open("/proc/%d/stat" % p.pid) as fh:
                    f = fh.read().rsplit(")", 1)[1].split()
                return (int(f[11]) + int(f[12])) / float(os.sysconf("SC_CLK_TCK"))
            except (OSError, IndexError, ValueError):
                return None

        def watchdog():
            # a hang is judged by the CPU time the child burns on one case (load on the machine cannot
            # cause a false alarm); a very long wall-clock silence with an idle child is a tool problem
            while p.poll() is None:
                time.sleep(0.5)
                cpu = child_cpu()
                if cpu is not None and cpu - cpu_mark[0] > per_case_timeout:
                    hung[0] = True
                    p.kill()
                    return
                if time.time() - last[0] > max(600.0, 20 * per_case_timeout):
                    stalled[0] = True
                    p.kill()
                    return

        wd = threading.Thread(target=watchdog, daemon=True)
        wd.start()
        for line in p.stdout:
            last[0] = time.time()
            c = child_cpu()
            if c is not None:
                cpu_mark[0] = c
            try:
                r = json.loads(line)
            except ValueError:
                continue
            if "harness_error" in r and "id" not in r:
                raise ToolError("harness: " + str(r))
            results[todo[done]["id"]] = r
            done += 1
        p.wait()
        if stalled[0]:
            raise ToolError("harness stalled without using CPU (driver problem, not a finding)")
        if done < len(todo):
            culprit = todo[done]
            if hung[0]:
                results[culprit["id"]] = {"id": culprit["id"], "timeout": per_case_timeout}
            else:
                results[culprit["id"]] = {"id": culprit["id"], "abort": p.returncode}
            todo = todo[done + 1:]
        else:
            todo = []
    return results


def harness(mode, cases, jobs=None, per_case_timeout=20.0):
    """cases: list of dicts with unique 'id'. Returns list of results in the same order."""
    build()
    if not cases:
        return []
    jobs = jobs or min(NCPU, max(1, len(cases) // 50))
    chunks = [cases[i::jobs] for i in range(jobs)]
    out = {}
    with ThreadPoolExecutor(max_workers=jobs) as ex:
        for res in ex.map(lambda ch: _run_chunk(mode, ch, per_case_timeout), chunks):
            out.update(res)
    return [out[c["id"]] for c in cases]


# --------------------------------------------------------------------------------------------
# TLC
# --------------------------------------------------------------------------------------------
_TLA_STR = re.compile(r'"((?:[^"\\]|\\.)*)"')


def _tla_unescape(s):
    out = []
    i = 0
    while i < len(s):
        ch = s[i]
        if ch == "\\" and i + 1 < len(s):
            nx = s[i + 1]
            out.append({"n": "\n", "t": "\t", "r": "\r", "f": "\f"}.get(nx, nx))
            i += 2
        else:
            out.append(ch)
            i += 1
    return "".join(out)


TLA_CP = os.environ.get("VERIF_TLA_CP", "/opt/veriftools/tla/tla2tools.jar:/opt/veriftools/tla/CommunityModules-deps.jar")


def tlc(module, cfg, workers=8, timeout=3600, simulate=None, depth=None, env=None, check_deadlock=False,
        name=None, extra_java=None, want_replay=True, coverage=False):
    """Runs TLC. Returns dict(states, distinct, replay=[...], out=stdout, ok=bool, coverage={action: count})."""
    name = name or (os.path.splitext(os.path.basename(cfg))[0])
    wd = workdir("tlc_" + name)
    # java is invoked directly (not through the `tlc` wrapper) because the stack size of the MAIN thread - which
    # evaluates the initial states and their invariants - is only taken from -Xss on the command line; with
    # JAVA_TOOL_OPTIONS alone deep recursive operators overflowed it, depending on JIT timing
    xss = os.environ.get("VERIF_TLC_XSS", "256m")
    cmd = ["java", "-Dfile.encoding=UTF-8", "-Xss" + xss, "-XX:+UseParallelGC", "-cp", TLA_CP, "tlc2.TLC", "-workers", str(workers), "-config", os.path.join(SPEC, cfg), "-metadir", os.path.join(wd, "states"),
           "-cleanup", "-noGenerateSpecTE", "-seed", str(SEED)]
    if coverage:
        cmd += ["-coverage", "1"]
    if simulate:
        cmd += ["-simulate", "num=%d" % simulate]
        if depth:
            cmd += ["-depth", str(depth)]
    if check_deadlock:
        cmd += ["-deadlock"]
    cmd.append(os.path.join(SPEC, module))
    e = dict(os.environ)
    jopts = "-Xss" + xss
    if extra_java:
        jopts += " " + extra_java
    e["JAVA_TOOL_OPTIONS"] = jopts
    if env:
        e.update(env)
    t0 = time.time()
    try:
        r = subprocess.run(cmd, cwd=wd, env=e, capture_output=True, text=True, timeout=timeout)
    except subprocess.TimeoutExpired:
        raise ToolError("TLC timed out after %ds on %s/%s" % (timeout, module, cfg))
    out = r.stdout
    res = {"out": out, "wall_s": time.time() - t0, "rc": r.returncode, "replay": [], "coverage": {}}
    m = re.search(r"(\d+) states generated, (\d+) distinct states found", out)
    if m:
        res["states"] = int(m.group(2))
        res["transitions"] = int(m.group(1))
    else:
        m = re.search(r"(\d+) states checked", out)  # simulation mode
        res["states"] = res["transitions"] = int(m.group(1)) if m else 0
    for m in re.finditer(r"^<(\w+) line \d+, col \d+ to line \d+, col \d+ of module (\w+)>: (\d+):(\d+)", out, re.M):
        res["coverage"][m.group(1)] = res["coverage"].get(m.group(1), 0) + int(m.group(4))
    res["ok"] = (r.returncode == 0) and ("Error:" not in out)
    if want_replay:
        for m in _TLA_STR.finditer(out):
            s = m.group(1)
            if s.startswith("{\\\"R\\\":") or s.startswith('{\\"R\\"'):
                try:
                    res["replay"].append(json.loads(_tla_unescape(s)))
                except ValueError as ex:
                    raise ToolError("cannot parse REPLAY line: %s: %s" % (ex, s[:200]))
    shutil.rmtree(os.path.join(wd, "states"), ignore_errors=True)
    return res


def tlc_stream(module, cfg, stats, workers=8, timeout=14400, name=None, batch=20000):
    """Like tlc_check, but yields the REPLAY records in batches while TLC runs (the large configurations print
    hundreds of thousands of behaviours: holding them all costs tens of gigabytes).  `stats` receives states /
    transitions / wall_s; a TLC error raises ToolError after the last batch."""
    name = name or (os.path.splitext(os.path.basename(cfg))[0])
    wd = workdir("tlc_" + name)
    xss = os.environ.get("VERIF_TLC_XSS", "256m")
    cmd = ["java", "-Dfile.encoding=UTF-8", "-Xss" + xss, "-XX:+UseParallelGC", "-cp", TLA_CP, "tlc2.TLC", "-workers", str(workers), "-config", os.path.join(SPEC, cfg),
           "-metadir", os.path.join(wd, "states"), "-cleanup", "-noGenerateSpecTE", "-seed", str(SEED), os.path.join(SPEC, module)]
    e = dict(os.environ)
    e["JAVA_TOOL_OPTIONS"] = "-Xss" + xss
    t0 = time.time()
    p = subprocess.Popen(cmd, cwd=wd, env=e, stdout=subprocess.PIPE, stderr=subprocess.DEVNULL, text=True, bufsize=1 << 20)
    other = []
    cur = []
    try:
        for line in p.stdout:
            if time.time() - t0 > timeout:
                p.kill()
                raise ToolError("TLC timed out after %ds on %s/%s" % (timeout, module, cfg))
            m = _TLA_STR.match(line.rstrip("\n")) if line.startswith('"') else None
            if m and (m.group(1).startswith("{\\\"R\\\":") or m.group(1).startswith('{\\"R\\"')):
                cur.append(json.loads(_tla_unescape(m.group(1))))
                if len(cur) >= batch:
                    yield cur
                    cur = []
            else:
                if len(other) < 5000:
                    other.append(line)
        p.wait()
    finally:
        if p.poll() is None:
            p.kill()
        shutil.rmtree(os.path.join(wd, "states"), ignore_errors=True)
    if cur:
        yield cur
    out = "".join(other)
    m = re.search(r"(\d+) states generated, (\d+) distinct states found", out)
    stats["states"] = int(m.group(2)) if m else 0
    stats["transitions"] = int(m.group(1)) if m else 0
    stats["wall_s"] = time.time() - t0
    if p.returncode != 0 or "Error:" in out:
        raise ToolError("TLC reports an error on %s/%s:\n%s" % (module, cfg, out[-3000:]))


def tlc_check(module, cfg, **kw):
    """Model-check a spec; a violated invariant of the *spec* is a tool error (the oracle is incoherent)."""
    r = tlc(module, cfg, **kw)
    if not r["ok"]:
        raise ToolError("TLC reports an error on %s/%s:\n%s" % (module, cfg, r["out"][-3000:]))
    return r


def tlc_trace(module, cfg, trace_path, name=None, timeout=1800):
    """Trace validation (implementation -> specification).  The *Trace.tla modules consume the whole
    trace, record every rejected unit in `bad` and print <<"TRACE-VERDICT", n_records, bad>> at the end.
    Returns dict(records, bad=[[unit id, index of first unmatched record]...], states, transitions)."""
    name = name or ("trace_" + os.path.splitext(os.path.basename(trace_path))[0])
    wd = workdir("tlc_" + name)
    cmd = ["java", "-Dfile.encoding=UTF-8", "-Xss1g", "-Xmx4g", "-XX:+UseParallelGC", "-Dtlc2.tool.queue.IStateQueue=StateDeque", "-cp", TLA_CP, "tlc2.TLC",
           "-workers", "1", "-config", os.path.join(SPEC, cfg), "-metadir", os.path.join(wd, "states"),
           "-cleanup", "-noGenerateSpecTE", os.path.join(SPEC, module)]
    e = dict(os.environ)
    e["JAVA_TOOL_OPTIONS"] = "-Xss1g"
    e["TRACE"] = trace_path
    try:
        r = subprocess.run(cmd, cwd=wd, env=e, capture_output=True, text=True, timeout=timeout)
    except subprocess.TimeoutExpired:
        raise ToolError("TLC trace validation timed out on " + trace_path)
    out = r.stdout
    shutil.rmtree(os.path.join(wd, "states"), ignore_errors=True)
    m = re.search(r'<<\s*"TRACE-VERDICT",\s*(\d+),\s*(<<.*?>>)\s*>>\s*$', out, re.M | re.S)
    if not m or r.returncode != 0:
        raise ToolError("trace validation produced no verdict (rc=%s):\n%s" % (r.returncode, out[-3000:]))
    bad = [[int(a), int(b)] for a, b in re.findall(r"<<\s*(-?\d+),\s*(\d+)\s*>>", m.group(2))]
    sm = re.search(r"(\d+) states generated, (\d+) distinct states found", out)
    return {"records": int(m.group(1)), "bad": bad, "out": out,
            "states": int(sm.group(2)) if sm else 0, "transitions": int(sm.group(1)) if sm else 0}


# --------------------------------------------------------------------------------------------
# findings, reporting, evidence
# --------------------------------------------------------------------------------------------
def load_known():
    p = os.path.join(VERIF, "known_findings.json")
    if not os.path.exists(p):
        return []
    with open(p) as f:
        return json.load(f).get("findings", [])


class Failure:
    """One observed disagreement between implementation and specification."""

    def __init__(self, prop, signature, labels=(), detail=None, replay=None):
        self.prop = prop
        self.signature = signature      # stable, input-independent description of what failed
        self.labels = set(labels)       # construct labels of the stimulus (production labels, rule/site, message kind...)
        self.detail = detail or {}
        self.replay = replay or {}

    def key(self):
        return self.prop + "|" + self.signature


class Report:
    def __init__(self, prop):
        self.prop = prop
        self.known = [k for k in load_known() if k.get("property") == prop and k.get("status", "open") == "open"]
        self.failures = []
        self.t0 = time.time()
        self.stats = {}

    def add(self, signature, labels=(), detail=None, replay=None):
        self.failures.append(Failure(self.prop, signature, labels, detail, replay))

    def _match(self, f):
        for k in self.known:
            lab = k.get("label", "*")
            if lab != "*" and lab not in f.labels:
                continue
            if any(x not in f.labels for x in k.get("labels", [])):
                continue
            if re.fullmatch(k.get("signature", ".*"), f.signature):
                return k
        return None

    def finish(self, level, coverage, assumptions=None, max_lines=20):
        """Prints the verdict lines, writes replay + evidence. Returns the process exit status."""
        os.makedirs(EVIDENCE, exist_ok=True)
        new, known_hit = {}, {}
        for f in self.failures:
            k = self._match(f)
            if k is not None:
                known_hit.setdefault(k["id"], (k, []))[1].append(f)
            else:
                new.setdefault(f.key(), []).append(f)
        for kid, (k, fs) in sorted(known_hit.items()):
            print("KNOWN-FINDING: property=%s %s [%s; %d case(s) this run]" % (self.prop, k["what"], kid, len(fs)))
        stale = [k["id"] for k in self.known if k["id"] not in known_hit]
        rc = 0
        shown = 0
        if new:
            d = os.path.join(REPLAYS, self.prop)
            os.makedirs(d, exist_ok=True)
            for key, fs in sorted(new.items()):
                f = fs[0]
                h = hashlib.sha1(key.encode()).hexdigest()[:12]
                path = os.path.join(d, h + ".json")
                with open(path, "w") as fh:
                    json.dump({"property": self.prop, "signature": f.signature, "labels": sorted(f.labels),
                               "cases_with_this_signature": len(fs), "detail": f.detail, "replay": f.replay},
                              fh, indent=1, default=str)
                if shown < max_lines:
                    print("VIOLATION property=%s replay=%s" % (self.prop, path))
                    log("   signature: %s  (%d case(s))" % (f.signature, len(fs)))
                    shown += 1
                rc = 1
        cov = dict(coverage)
        cov.setdefault("known_findings_hit", sorted(known_hit.keys()))
        cov.setdefault("known_findings_not_reproduced_this_run", stale)
        ev = {
            "property_id": self.prop,
            "tier": TIER if TIER in ("quick", "thorough") else "quick",
            "seed": SEED,
            "level": level,
            "coverage": cov,
            "assumptions": assumptions or [],
            "wall_s": round(time.time() - self.t0, 2),
            "violations": len(new),
        }
        with open(os.path.join(EVIDENCE, self.prop + ".json"), "w") as fh:
            json.dump(ev, fh, indent=1, default=str)
        log("[%s] %s: %d new violation signature(s), %d known finding(s) hit, %.1fs" %
            (self.prop, "FAIL" if rc else "ok", len(new), len(known_hit), time.time() - self.t0))
        return rc


def deviation_caught(module, cfg, invariant, cov=None):
    """Spec-level self test: with the named deviation enabled (cfg) TLC must report `invariant` violated.
    Otherwise the specification could not tell the faulty design from the right one: tool error."""
    r = tlc(module, cfg, workers=4, want_replay=False)
    if invariant not in re.findall(r"Invariant (\w+) is violated", r["out"]):
        raise ToolError("deviation configuration %s is not caught by invariant %s" % (cfg, invariant))
    if cov is not None:
        cov["states"] += r.get("states", 0)
        cov.setdefault("deviations_caught_by_spec", []).append("%s: %s" % (cfg, invariant))


def main_wrapper(fn):
    try:
        rc = fn()
    except ToolError as e:
        log("TOOL ERROR: " + str(e))
        sys.exit(2)
    sys.exit(rc)


# --------------------------------------------------------------------------------------------
# running the real binary
# --------------------------------------------------------------------------------------------
ANSI = re.compile(r"\x1b\[[0-9;]*m")


def run_cli(args, cwd=None, timeout=60, stdin=None):
    build()
    env = dict(os.environ)
    env.pop("RUST_LOG", None)
    try:
        r = subprocess.run([IRONPLCC] + list(args), cwd=cwd, capture_output=True, timeout=timeout, input=stdin, env=env)
    except subprocess.TimeoutExpired:
        return {"rc": None, "timeout": True, "stdout": "", "stderr": ""}
    return {"rc": r.returncode, "stdout": r.stdout.decode("utf-8", "replace"),
            "stderr": ANSI.sub("", r.stderr.decode("utf-8", "replace"))}


DIAG_HEAD = re.compile(r"^error\[(P\d{4})\]", re.M)
DIAG_LOC = re.compile(r"^\s*┌─ (.*):(\d+):(\d+)\s*$", re.M)


def parse_cli_diags(stderr, all_locations=False):
    """Returns list of (code, file|None, line|None, col|None) from codespan output (ANSI stripped): the
    location is that of the primary label (the first one printed).  With all_locations=True a fifth
    element lists every (file, line, col) shown for the diagnostic (primary and secondary labels)."""
    out = []
    blocks = re.split(r"(?m)^(?=error\[P\d{4}\])", stderr)
    for b in blocks:
        m = DIAG_HEAD.match(b)
        if not m:
            continue
        locs = [(x.group(1), int(x.group(2)), int(x.group(3))) for x in DIAG_LOC.finditer(b)]
        first = locs[0] if locs else (None, None, None)
        if all_locations:
            out.append((m.group(1), first[0], first[1], first[2], locs))
        else:
            out.append((m.group(1), first[0], first[1], first[2]))
    return out
