"""Semantic-token conformance (C15): decode the server's relative encoding and compare it with the
highlighted lexemes the specification computed for the same document."""
import lspdrv
import vlib


def decode(data):
    """LSP relative encoding -> list of (line, col, len, type index, modifiers).  Mirrors Lexer!Decode."""
    out = []
    line = col = 0
    if len(data) % 5 != 0:
        return None
    for i in range(0, len(data), 5):
        dl, ds, ln, ty, mod = data[i:i + 5]
        line = line + dl
        col = col + ds if dl == 0 else ds
        out.append((line, col, ln, ty, mod))
    return out


def check_doc(data, expected, has_err, legend, class_table, kw_default):
    """expected: list of [line, cb, cc, cu, lb, lc, lu, kind].  Returns None or a mismatch signature."""
    if has_err:
        return None if data is None else "partial-list-for-invalid-text"
    if data is None:
        return "null-for-valid-text"
    dec = decode(data)
    if dec is None:
        return "data-length-not-multiple-of-5"
    if any(x < 0 for x in data):
        return "negative-component"
    # strictly increasing, non-overlapping (single-line lexemes; a multi-line comment ends on a later line)
    for a, b in zip(dec, dec[1:]):
        if not (a[0] < b[0] or (a[0] == b[0] and a[1] < b[1])):
            return "not-strictly-increasing"
    if len(dec) != len(expected):
        got = len(dec)
        return "lexeme-count:%s" % ("missing" if got < len(expected) else "extra")
    for d, e in zip(dec, expected):
        kind = e[7]
        if d[0] != e[0]:
            return "line:%s" % kind
        if d[1] not in (e[1], e[2], e[3]):
            return "column:%s" % kind
        if d[2] not in (e[4], e[5], e[6]):
            return "length:%s" % kind
        allowed = class_table.get(kind, kw_default)
        if d[3] >= len(legend) or legend[d[3]] not in allowed:
            return "class:%s" % kind
        if d[4] != 0:
            return "modifiers:%s" % kind
    return None


def comments_of(text):
    """independent of the lexer under test: the comments of a text, scanned by hand (strings skipped) ->
    [(line, column in bytes, in characters, in UTF-16 units)], or None if the text has an unterminated comment / string"""
    out = []
    i, n = 0, len(text)
    while i < n:
        c = text[i]
        if text.startswith("(*", i):
            j = text.find("*)", i + 2)
            if j < 0:
                return None
            out.append(i)
            i = j + 2
        elif text.startswith("//", i):
            out.append(i)
            j = text.find("\n", i)
            i = n if j < 0 else j
        elif c in "'\"":
            j = text.find(c, i + 1)
            if j < 0:
                return None
            i = j + 1
        else:
            i += 1
    res = []
    for i in out:
        line = text.count("\n", 0, i)
        seg = text[text.rfind("\n", 0, i) + 1:i]
        res.append((line, len(seg.encode("utf-8")), len(seg), len(seg.encode("utf-16-le")) // 2))
    return res


def comment_oracle(text, data, legend):
    """every comment of a valid document is a lexeme of the response, with the legend entry 'comment' (None = fine)"""
    if data is None or not isinstance(data, list) or "(*@" in text:
        return None
    dec = decode(data)
    if dec is None:
        return None
    want = comments_of(text)
    if want is None:
        return None
    got = set((d[0], d[1]) for d in dec if d[3] < len(legend) and legend[d[3]] == "comment")
    for line, cb, cc, cu in want:
        if not ({(line, cb), (line, cc), (line, cu)} & got):
            return "comment-of-the-document-missing-in-the-response"
    return None


def run_batch(docs):
    """docs: list of texts.  One server process: open the first, change to each next one, requesting the
    tokens after every edit (an edit history).  The two equivalent spellings of the document's URI alternate between the
    notifications and the requests (a message addresses a document, however its URI is spelled).  Returns (legend, [data|None|'NO-RESPONSE'...], rc)."""
    msgs = []
    n = 0
    for i, t in enumerate(docs):
        n += 1
        if i == 0:
            msgs.append(lspdrv.m_open(lspdrv.uri_of(1, n), t, n))
        else:
            msgs.append(lspdrv.m_change(lspdrv.uri_of(1, n), [t], n))
        n += 1
        msgs.append(lspdrv.m_semtok(n, lspdrv.uri_of(1, n + i)))
    msgs += [lspdrv.m_shutdown(n + 1), lspdrv.M_EXIT]
    r = lspdrv.run_server(msgs, timeout=60)
    obs = lspdrv.observe(r["frames"])
    by_id = {o["id"]: o for o in obs if o["k"] in ("resp", "err")}
    out = []
    for i in range(len(docs)):
        o = by_id.get(2 * (i + 1))
        if o is None or o["k"] != "resp":
            out.append("NO-RESPONSE")
        else:
            out.append(None if o["result"] is None else o["result"].get("data"))
    return lspdrv.legend(r["frames"]), out, r["rc"]
