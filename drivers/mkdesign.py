#!/usr/bin/env python3
"""Regenerates the generated regions of DESIGN.md (between <!-- BEGIN:x --> and <!-- END:x -->) from
known_findings.json and seeded/*/{meta,detection}.json, so that the document cannot drift from the data."""
import glob
import json
import os
import re

V = os.path.dirname(os.path.dirname(os.path.abspath(__file__)))


def region(text, name, body):
    a, b = "<!-- BEGIN:%s -->" % name, "<!-- END:%s -->" % name
    if a not in text:
        raise SystemExit("region %s missing in DESIGN.md" % name)
    i, j = text.index(a) + len(a), text.index(b)
    return text[:i] + "\n" + body.rstrip() + "\n" + text[j:]


def main():
    k = json.load(open(os.path.join(V, "known_findings.json")))
    fixed = []
    for line in k["fixed"]:
        m = re.match(r"fixed: property=(C\d+) (\w+) (.*)", line)
        fixed.append("| %s | `%s` | %s |" % (m.group(1), m.group(2), m.group(3).replace("|", "\\|")))
    fixed_md = "| property | commit | what failed |\n|---|---|---|\n" + "\n".join(fixed)
    rows = []
    c10 = []
    for f in k["findings"]:
        if f["property"] == "C10":
            c10.append("`%s`" % "+".join([f.get("label", "*")] + f.get("labels", [])))
            continue
        rows.append("| %s | `%s` | `%s` | %s |" % (f["property"], f["id"], "+".join([f.get("label", "*")] + f.get("labels", [])),
                                                f["what"].replace("|", "\\|")))
    open_md = ("| property | id | construct label | what fails |\n|---|---|---|---|\n" + "\n".join(rows) +
               "\n\nC10 (renderer) quarantine, by construct label, %d entries: %s" % (len(c10), ", ".join(c10)))
    srows = []
    for d in sorted(glob.glob(os.path.join(V, "seeded", "*", "meta.json"))):
        m = json.load(open(d))
        det = os.path.join(os.path.dirname(d), "detection.json")
        dj = json.load(open(det)) if os.path.exists(det) else {"checks": {}, "detected_by": []}
        sigs = []
        for c, r in dj["checks"].items():
            if r["exit"] == 1:
                sigs.append("%s: %s" % (c, "; ".join(s.split("  (")[0] for s in r["signatures"][:3])))
        srows.append("| `%s` | %s | %s | %s | %s |" % (m["id"], m["property"], m["summary"].replace("|", "\\|"), m["needs"].replace("|", "\\|"),
                                                     "<br>".join(sigs) if sigs else "MISSED"))
    seeded_md = "| id | property | change | needs to manifest | detected by (quick tier): signatures |\n|---|---|---|---|---|\n" + "\n".join(srows)
    fr = os.path.join(V, "seeded", "fixrev", "SUMMARY.json")
    frows = []
    if os.path.exists(fr):
        summ = json.load(open(fr))
        n_det = sum(1 for r in summ.values() if r.get("result") == "detected")
        n_na = sum(1 for r in summ.values() if str(r.get("result", "")).startswith("reverse patch"))
        rest = [(c, r) for c, r in summ.items() if r.get("result") != "detected" and not str(r.get("result", "")).startswith("reverse patch")]
        frows.append("%d reversed repairs: %d detected by the check of their property, %d not applicable (later commits touch the same lines), %d other."
                     % (len(summ), n_det, n_na, len(rest)))
        if rest:
            frows.append("")
            frows.append("| commit | property | outcome | note |")
            frows.append("|---|---|---|---|")
            for c, r in rest:
                frows.append("| `%s` | %s | %s | %s |" % (c, r["property"], r.get("result"), r.get("note", "")))
    fixrev_md = "\n".join(frows) if frows else "(not run yet)"
    p = os.path.join(V, "DESIGN.md")
    t = open(p).read()
    t = region(t, "fixrev", fixrev_md)
    t = region(t, "fixed", fixed_md)
    t = region(t, "open", open_md)
    t = region(t, "seeded", seeded_md)
    open(p, "w").write(t)


if __name__ == "__main__":
    main()
