"""Binding of Pipeline.tla to the real pipeline: every arrangement TLC enumerates (permutation x partition x file
order) is analysed with analyze() in exactly that order, through Project::semantic(), and (sampled) through
fresh `ironplcc check` processes.  Shared by C03 and C06."""
import os
import random
import shutil
from concurrent.futures import ThreadPoolExecutor

import pipescen
import vlib


# The files of a set have names that differ in letter case only: on the file systems the tools run on these are
# different files, and each of them is part of the compilation set (nothing may treat two of them as one).
FILE_NAMES = ["Unit.st", "unit.st", "UNIT.st", "uNIT.st", "unIT.st", "uniT.st", "UNit.st", "UnIt.st"]


def build_files(decls, arrangement):
    """decls: list of (kind, fault); arrangement: list of files, each a list of 1-based declaration ids.
    Returns [(file name, text, [(decl id, start, end)])]"""
    out = []
    for fi, f in enumerate(arrangement):
        text = ""
        spans = []
        for d in f:
            t = pipescen.decl_text(*decls[d - 1])
            spans.append((d, len(text.encode("utf-8")), len((text + t).encode("utf-8"))))
            text += t
        out.append((FILE_NAMES[fi] if fi < len(FILE_NAMES) else "f%d.st" % (fi + 1), text, spans))
    return out


def located(diags, files, decls):
    """diagnostics as a set of (code, declaration name, labelled lexeme) - independent of the arrangement"""
    res = set()
    by_name = {n: (t, sp) for n, t, sp in files}
    for d in diags:
        lab = d["primary"]
        if lab["file"] not in by_name:
            res.add((d["code"], "-", "-"))
            continue
        text, spans = by_name[lab["file"]]
        tb = text.encode("utf-8")
        who = "-"
        for did, a, b in spans:
            if a <= lab["start"] < b or (lab["start"] == b == len(tb)):
                who = pipescen.KINDS[decls[did - 1][0]][0] + ("#dup" if decls[did - 1][1].startswith("dup") else "")
        res.add((d["code"], who, tb[lab["start"]:lab["end"]].decode("utf-8", "replace")))
    return res


def sample_arrangements(n, rng, count, maxfiles=4):
    out = []
    for _ in range(count):
        p = list(range(1, n + 1))
        rng.shuffle(p)
        k = rng.randrange(1, maxfiles + 1)
        cuts = sorted(rng.sample(range(1, n), min(k - 1, n - 1)))
        files, prev = [], 0
        for c in cuts + [n]:
            files.append(p[prev:c])
            prev = c
        out.append(files)
    return out


def run_scenario(name, decls, tier, seed, cov):
    """returns dict(expected, arrangements:[(files, observation)]); observation: verdict, located diags, crash"""
    r = vlib.tlc_check("MC_Pipe_%s.tla" % name, "MC_Pipe_%s.cfg" % name, workers=4, timeout=3600)
    cov["states"] += r["states"]
    cov["transitions"] += r["transitions"]
    recs = [x for x in r["replay"] if x.get("R") == "arr"]
    if not recs:
        raise vlib.ToolError("no arrangement from scenario " + name)
    expected = recs[0]["expected"]
    if any(x["expected"] != expected or x["verdict"] != expected for x in recs):
        raise vlib.ToolError("specification verdict not constant in scenario " + name)
    arrs = {}
    for x in recs:
        arrs[tuple(tuple(f) for f in x["files"])] = 1
    arrs = [list(map(list, a)) for a in arrs]
    rng = random.Random(seed)
    n = len(decls)
    if n > 5:
        arrs = arrs + sample_arrangements(n, rng, 40 if tier == "quick" else 600)
    elif tier == "quick":
        # every single-file permutation is kept; the multi-file arrangements are thinned deterministically
        arrs = [a for i, a in enumerate(arrs) if len(a) == 1 or i % 4 == seed % 4]
    cases = []
    built = []
    for i, a in enumerate(arrs):
        files = build_files(decls, a)
        built.append(files)
        cases.append({"id": i, "files": [{"name": fn, "text": t} for fn, t, _ in files], "project": True})
    res = vlib.harness("analyze", cases)
    out = []
    for a, files, rr in zip(arrs, built, res):
        if "panic" in rr or "abort" in rr or "timeout" in rr:
            out.append((a, {"crash": str(rr.get("panic") or rr.get("abort") or "timeout")}))
            continue
        parse_diags = [p["diag"] for p in rr.get("parse", []) if not p["ok"]]
        an_ok = rr.get("analyze_ok", False if not rr.get("parse") else None)
        all_parsed = not parse_diags
        direct = "Ok" if (all_parsed and an_ok) else "Err"
        pr = rr.get("project") or {}
        pr2 = rr.get("project2") or {}
        obs = {"direct": direct, "project": "Ok" if pr.get("ok") else "Err", "project_again": "Ok" if pr2.get("ok") else "Err",
               "diags": located(parse_diags + rr.get("analyze_diags", []), files, decls),
               "project_diags": located(pr.get("diags", []), files, decls)}
        out.append((a, obs))
    cov["tlc_runs"].append({"cfg": "MC_Pipe_%s.cfg" % name, "states": r["states"], "arrangements": len(arrs)})
    rejected = validate_stage_traces(name, arrs, res, cov)
    return {"expected": expected, "runs": out, "decls": decls, "trace_rejected": rejected}


def validate_stage_traces(name, arrs, res, cov):
    """implementation -> specification: the events recorded by the guarded hook in analyzer/src/stages.rs for every
    analysed arrangement are validated by TLC as behaviours of Pipeline.tla (PipelineTrace.tla, module PT_<scenario>).
    Returns [(arrangement, index of the first unmatched record, that record)]"""
    import json
    import os
    lines = []
    index = []
    for k, (a, rr) in enumerate(zip(arrs, res)):
        if "stage_events" not in rr or "panic" in rr or "abort" in rr or "timeout" in rr:
            continue
        lines.append({"ev": "reset", "tid": k, "files": a})
        lines.append({"ev": "parsed", "ok": [bool(p["ok"]) for p in rr.get("parse", [])]})
        lines += [e for e in rr["stage_events"] if e.get("ev") != "scope"]      # symbol table operations: ScopeTrace.tla (C02)
        lines.append({"ev": "end", "ok": bool(rr.get("analyze_ok")) and all(p["ok"] for p in rr.get("parse", []))})
        index.append(k)
    if not lines:
        return []
    wd = vlib.workdir("ptrace_" + name)
    path = os.path.join(wd, "trace.ndjson")
    with open(path, "w") as fh:
        for e in lines:
            fh.write(json.dumps(e) + "\n")
    v = vlib.tlc_trace("PT_%s.tla" % name, "PT_%s.cfg" % name, path, name="ptrace_" + name)
    cov["states"] += v["states"]
    cov["transitions"] += v["transitions"]
    cov["stage_trace_events"] = cov.get("stage_trace_events", 0) + len(lines)
    cov["stage_traces_validated"] = cov.get("stage_traces_validated", 0) + len(index)
    out = []
    for tid, recno in v["bad"]:
        out.append((arrs[tid], recno, lines[recno - 1] if 0 < recno <= len(lines) else None))
    return out


def cli_runs(name, decls, arrangements, repeats, workdir):
    """`ironplcc check f1 f2 ...` in fresh processes (fresh hash seeds); returns [(arrangement, [ (rc, ok) ... ])]"""
    jobs = []
    for i, a in enumerate(arrangements):
        d = os.path.join(workdir, "%s_%d" % (name, i))
        os.makedirs(d, exist_ok=True)
        files = build_files(decls, a)
        # some files of the set directory are symbolic links to regular files kept next to it: a file of a compilation set
        # is a file however it got into the directory
        store = d + "_store"
        os.makedirs(store, exist_ok=True)
        for fi, (fn, t, _) in enumerate(files):
            if os.path.lexists(os.path.join(d, fn)):
                os.unlink(os.path.join(d, fn))
            if (fi + i) % 2 == 0:
                with open(os.path.join(d, fn), "w") as fh:        # every other file is a regular file ...
                    fh.write(t)
                continue
            with open(os.path.join(store, fn), "w") as fh:          # ... the others are links
                fh.write(t)
            os.symlink(os.path.join("..", os.path.basename(store), fn), os.path.join(d, fn))
        jobs.append((a, d, [fn for fn, _, _ in files]))

    def one(j):
        a, d, fns = j
        outs = []
        for k in range(repeats):
            args = list(fns) if k % 2 == 0 else list(reversed(fns))
            if k % 3 == 2:
                args = ["."]
            r = vlib.run_cli(["check"] + args, cwd=d)
            outs.append((r["rc"], r["stdout"].strip() == "OK", sorted(set(c for c, _, _, _ in vlib.parse_cli_diags(r["stderr"])))))
        return a, outs

    with ThreadPoolExecutor(max_workers=vlib.NCPU) as ex:
        res = list(ex.map(one, jobs))
    for _, d, _ in jobs:
        shutil.rmtree(d, ignore_errors=True)
        shutil.rmtree(d + "_store", ignore_errors=True)
    return res
