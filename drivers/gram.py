"""Binding of Grammar.tla to the real parser.

 * spell()      token sequence (from TLC) -> concrete text, canonical or re-spelled (C08)
 * denote()     the value TLC computed   -> normal form of the abstract syntax
 * project()    Debug tree of dsl::Library (JSON, from `vph parse`) -> the same normal form
 * diff()       first difference between two normal forms, as a path (stable finding signature)

Normal form: nested lists.  ["L", item...] is a list, [Tag, child...] a node, leaves are strings.
Identifiers and type names are lower-cased on both sides (IEC identifiers are case-insensitive); the payload
of character strings is not.
"""
import json
import random
import re

# ------------------------------------------------------------------------------------------------------
# spelling
# ------------------------------------------------------------------------------------------------------
TRIVIA = [" ", "  ", "\t", "\n", "\r\n", " \n  ", "\f", " (* c *) ", "(**)", " (***) ", "\n(* multi\n   line *)\n",
          " (* ( nested-looking (* *) ", "(* é € *)", " (* a ** b **) ", "\t(* 'q' *)\t",
          # the start key of an OSCAT description header WITHOUT its end key: an ordinary comment (never add the end key here:
          # the text between the two keys is blanked by the documented preprocessing)
          " (*@KEY@:DESCRIPTION*) "]


def case_variant(word, rng):
    m = rng.randrange(4)
    if m == 0:
        return word.lower()
    if m == 1:
        return word.upper()
    if m == 2:
        return word.capitalize()
    return "".join(ch.upper() if rng.random() < 0.5 else ch.lower() for ch in word)


def respell_literal(text, rng):
    """case variation inside literals where IEC 61131-3 is case-insensitive: type prefixes, the E of an
    exponent, TRUE/FALSE, duration units.  Hex digits and string payloads are left alone."""
    if text.startswith("'") or text.startswith('"') or text.startswith("%"):
        return text
    if "#" in text:
        head, _, tail = text.rpartition("#")
        if re.fullmatch(r"[0-9A-F_]+", tail) and re.search(r"16$", head):
            return case_variant_prefix(head, rng) + "#" + tail          # hex digits stay upper-case
        if re.search(r"(?i)^(t|time)$", head.split("#")[0]) and not head.count("#"):
            return case_variant(head, rng) + "#" + tail                 # duration units: see C09 (kept as written)
        return case_variant_prefix(head, rng) + "#" + (case_variant(tail, rng) if tail.upper() in ("TRUE", "FALSE") else tail)
    if text.upper() in ("TRUE", "FALSE"):
        return case_variant(text, rng)
    return text


def case_variant_prefix(head, rng):
    return "#".join(case_variant(p, rng) if re.fullmatch(r"[A-Za-z_]+", p) else p for p in head.split("#"))


GLUE_CHARS = set("()[],;")


_MARK = re.compile(r"<([0-9A-F]{2,6})>")


def unmark(s):
    """GrammarProds.tla writes non-ASCII characters of string literals as <HEX> (code point): the module stays ASCII"""
    return _MARK.sub(lambda m: chr(int(m.group(1), 16)), s) if "<" in s else s


def spell(toks, rng=None, trivia=False, case=False, drop_endif_semi=False, compact=False):
    """Returns (text, spans): spans[i] = (start, end) byte offsets of token i (None if the token is dropped).
    Canonical spelling: exactly one blank between two tokens unless the second is marked glued.
    trivia=True replaces each of those blanks by a random member of TRIVIA (C08: 'replacing the whitespace
    between two tokens by any other mix of blanks, tabs, line breaks and comments').
    compact=True writes no white space next to brackets, commas and semicolons ('a[1]:=f(x,y);')."""
    parts = []
    spans = []
    pos = 0
    skip = set()
    if drop_endif_semi:
        for i in range(len(toks) - 1):
            if toks[i][1] == "END_IF" and toks[i + 1][1] == ";":
                skip.add(i + 1)
    first = True
    for i, (cat, text, glue) in enumerate(toks):
        if i in skip:
            spans.append(None)
            continue
        if compact and not first and parts and (parts[-1][-1:] in GLUE_CHARS or text[:1] in GLUE_CHARS or text == ".." or parts[-1] == ".."):
            glue = True       # compact spelling: no white space next to a bracket, comma or semicolon
        if not first and not glue:
            sep = rng.choice(TRIVIA) if (trivia and rng is not None) else " "
            parts.append(sep)
            pos += len(sep.encode("utf-8"))
        first = False
        w = unmark(text) if cat == "lit" else text
        text = w
        if case and rng is not None:
            if cat == "kw" and re.fullmatch(r"[A-Za-z_][A-Za-z_0-9]*", text):
                w = case_variant(text, rng)
            elif cat == "id":
                w = case_variant(text, rng)
            elif cat == "lit":
                w = respell_literal(text, rng)
        b = w.encode("utf-8")
        spans.append((pos, pos + len(b)))
        parts.append(w)
        pos += len(b)
    return "".join(parts), spans


# ------------------------------------------------------------------------------------------------------
# normal form of the value computed by the specification
# ------------------------------------------------------------------------------------------------------
def unwrap(v):
    if v[0] == "$":
        return v[1]
    if v[0] == "Str":
        return ["Str", unmark(v[1][1])]
    return [v[0]] + [unwrap(c) for c in v[1:]]


def fold_case(v, keep=False):
    if isinstance(v, str):
        return v if keep else v.lower()
    keep_children = v[0] in ("Str",)
    return [v[0]] + [fold_case(c, keep_children) for c in v[1:]]


def canon_real(s):
    try:
        return repr(float(s))
    except ValueError:
        return s


def denote(val):
    """normalises the specification's value: parentheses denote nothing, a variable group denotes one
    variable per name, REAL values are compared as binary64."""
    return fold_case(_norm(unwrap(val)))


def _norm(v):
    if isinstance(v, str):
        return v
    tag = v[0]
    ch = [_norm(c) for c in v[1:]]
    if tag == "Paren":
        return ch[0]
    if tag == "Real":
        return ["Real", ch[0], canon_real(ch[1])]
    if tag == "SInt":
        return ["Int", "-", ch[0]]
    if tag == "Un" and ch[0] == "-" and ch[1][0] in ("Int", "Real") and not ch[1][2].startswith("-"):
        # -(7) and -7 denote the same constant (parentheses denote nothing; B.1.2.1 signed literals)
        if ch[1][0] == "Int":
            return ["Int", ch[1][1], ("-" + ch[1][2]) if ch[1][2] != "0" else ch[1][2]]
        return ["Real", ch[1][1], canon_real("-" + ch[1][2])]
    if tag in ("FB", "Prog", "Func"):
        # [.., blocks, ..]: the variable blocks denote a list of variables, a list of edge-declared inputs
        # and (PROGRAM) a list of access paths
        idx = {"FB": 1, "Prog": 1, "Func": 2}[tag]
        vs, edges, access = flatten_blocks(ch[idx])
        mid = [vs, edges] + ([access] if tag == "Prog" else [])
        return [tag] + ch[:idx] + mid + ch[idx + 1:]
    if tag == "Config":
        name, gblocks, res, vcs = ch
        gv, _, _ = flatten_blocks(gblocks)
        return ["Config", name, gv, res, ["L"] + [x for x in vcs[1:] if x[0] == "FbInit"], ["L"] + [x for x in vcs[1:] if x[0] == "LocInit"]]
    if tag == "Res":
        name, on, gblocks, tasks, progs = ch
        gv, _, _ = flatten_blocks(gblocks)
        return ["Res", name, on, gv, tasks, progs]
    if tag == "ProgConf":
        qual, name, task, ty, elems = ch
        return ["ProgConf", name, qual, task, ty] + [["L"] + [e for e in elems[1:] if e[0] == k] for k in ("FbTask", "Src", "Sink")]
    if tag == "GRef2":
        return ["GRef", ["L"] + ch]
    if tag == "SubrInline":
        return [tag, ch[0], _as_int(ch[1]), _as_int(ch[2]), _as_int(ch[3])]
    if tag == "Range":
        return [tag, _as_int(ch[0]), _as_int(ch[1])]
    if tag == "StrSpec" and ch[1] == "-":
        # STRING / WSTRING without length is just a reference to the elementary type (with or without initial value)
        return ["TRef", ch[0], ch[2]]
    return [tag] + ch


def _as_int(v):
    return v


def flatten_blocks(blocks):
    """a block [Block, class, qualifier, [L, group...]] denotes one variable per declared name, each with the
    block's class and qualifier and the group's specification"""
    vs, edges, access = ["L"], ["L"], ["L"]
    for b in blocks[1:]:
        if b[0] == "AccessBlock":
            access += b[1][1:]
            continue
        _, cls, qual, groups = b
        for g in groups[1:]:
            if g[0] == "Group":
                _, names, spec = g
                for n in names[1:]:
                    vs.append(["Var", n, cls, qual, spec])
            elif g[0] == "Edge":
                _, names, direction = g
                for n in names[1:]:
                    edges.append(["EdgeVar", n, direction, qual])
            elif g[0] == "LocVar":
                vs.append(g + [cls, qual])
            else:
                vs.append(g)
    return vs, edges, access


# ------------------------------------------------------------------------------------------------------
# projection of the parsed library
# ------------------------------------------------------------------------------------------------------
ELEM = {"TimeOfDay": "TIME_OF_DAY", "DateAndTime": "DATE_AND_TIME"}
CMP = {"Or": "OR", "Xor": "XOR", "And": "AND", "Eq": "=", "Ne": "<>", "Lt": "<", "Gt": ">", "LtEq": "<=", "GtEq": ">="}
BIN = {"Add": "+", "Sub": "-", "Mul": "*", "Div": "/", "Mod": "MOD", "Pow": "**"}
UN = {"Neg": "-", "Not": "NOT"}


class ProjError(Exception):
    pass


def tag(n):
    return n["_"] if isinstance(n, dict) and "_" in n else None


def opt(n):
    """Option<T> -> T or None"""
    if n == "None":
        return None
    if tag(n) == "Some":
        return n["0"]
    raise ProjError("not an Option: %r" % (n,))


def s_(n):
    if isinstance(n, dict) and "$s" in n:
        return n["$s"]
    raise ProjError("not a string: %r" % (n,))


def ident(n):
    if isinstance(n, str):
        return n
    raise ProjError("not an Id: %r" % (n,))


def typ(n):
    """Type { name: Id }"""
    if tag(n) == "Type":
        return ident(n["name"])
    raise ProjError("not a Type: %r" % (n,))


def etype(n):
    return ELEM.get(n, n)


def lst(items, f):
    return ["L"] + [f(x) for x in items]


def p_integer(n):
    return str(int(n["value"]))


def p_signed(n):
    v = p_integer(n["value"])
    return ("-" + v) if n["is_neg"] == "true" and v != "0" else v


def p_const(n):
    t = tag(n)
    c = n["0"]
    if t == "IntegerLiteral":
        dt = c["data_type"]
        return ["Int", "-" if dt == "None" else etype(opt(dt)), p_signed(c["value"])]
    if t == "RealLiteral":
        dt = c["data_type"]
        return ["Real", "-" if dt == "None" else etype(opt(dt)), canon_real(c["value"])]
    if t == "Boolean":
        return ["Bool", "TRUE" if c["value"] == "True" else "FALSE"]
    if t == "CharacterString":
        return ["Str", "".join(x["$c"] for x in c["value"])]
    if t == "Duration":
        iv = c["interval"]
        return ["Dur", str(int(iv["seconds"]) * 1000000000 + int(iv["nanoseconds"]))]
    if t == "TimeOfDay":
        return ["Tod"] + p_time(c["value"])
    if t == "Date":
        return ["Date"] + p_date(c["value"])
    if t == "DateAndTime":
        d, tm = c["value"].split(" ")
        return ["Dt"] + p_date(d) + p_time(tm)
    if t == "BitStringLiteral":
        dt = c["data_type"]
        return ["Bits", "-" if dt == "None" else etype(opt(dt)), p_integer(c["value"])]
    raise ProjError("constant kind " + str(t))


def p_date(s):
    m = re.fullmatch(r"(-?\d+)-(\d+)-(\d+)", s)
    return [str(int(m.group(1))), str(int(m.group(2))), str(int(m.group(3)))]


def p_time(s):
    m = re.fullmatch(r"(\d+):(\d+):(\d+)\.(\d+)", s)
    return [str(int(m.group(1))), str(int(m.group(2))), str(int(m.group(3))), m.group(4).rstrip("0") or "0"]


def p_addr(n):
    size = n["size"]
    return ["Addr", n["location"], "-" if size in ("Nil", "Unspecified") else size,
            ["L"] + [str(int(x)) for x in n.get("address", [])]]


def p_enumval(n):
    tn = n["type_name"]
    return ["EnumVal", "-" if tn == "None" else typ(opt(tn)), ident(n["value"])]


def p_symvar(n):
    t = tag(n)
    c = n["0"]
    if t == "Named":
        return ["Ref", ident(c["name"])]
    if t == "Array":
        return ["Index", p_symvar(c["subscripted_variable"]), lst(c["subscripts"], p_expr)]
    if t == "Structured":
        return ["Field", p_symvar(c["record"]), ident(c["field"])]
    raise ProjError("symbolic variable " + str(t))


def p_var(n):
    t = tag(n)
    if t == "Direct":
        return p_addr(n["0"])
    if t == "Symbolic":
        return p_symvar(n["0"])
    raise ProjError("variable " + str(t))


def p_param(n):
    t = tag(n)
    c = n["0"]
    if t == "PositionalInput":
        return ["Pos", p_expr(c["expr"])]
    if t == "NamedInput":
        return ["In", ident(c["name"]), p_expr(c["expr"])]
    if t == "Output":
        return ["OutNot" if c["not"] == "true" else "Out", ident(c["src"]), p_var(c["tgt"])]
    raise ProjError("param " + str(t))


def p_expr(n):
    t = tag(n)
    c = n["0"]
    if t == "Compare":
        return ["Bin", p_expr(c["left"]), CMP[c["op"]], p_expr(c["right"])]
    if t == "BinaryOp":
        return ["Bin", p_expr(c["left"]), BIN[c["op"]], p_expr(c["right"])]
    if t == "UnaryOp":
        e = p_expr(c["term"])
        op = UN[c["op"]]
        # a minus sign before a numeric literal is the literal's sign (B.1.2.1)
        if op == "-" and e[0] in ("Int", "Real") and not e[2].startswith("-"):
            if e[0] == "Int":
                return ["Int", e[1], ("-" + e[2]) if e[2] != "0" else e[2]]
            return ["Real", e[1], canon_real("-" + e[2])]
        return ["Un", op, e]
    if t == "Expression":
        return p_expr(c)
    if t == "Const":
        return p_const(c)
    if t == "EnumeratedValue":
        return p_enumval(c)
    if t == "Variable":
        return p_var(c)
    if t == "Function":
        return ["Call", ident(c["name"]), lst(c["param_assignment"], p_param)]
    if t == "LateBound":
        return ["Ref", ident(c["name"])]
    raise ProjError("expression " + str(t))


def p_casesel(n):
    t = tag(n)
    c = n["0"]
    if t == "Subrange":
        return ["Range", ["Int", "-", p_signed(c["start"])], ["Int", "-", p_signed(c["end"])]]
    if t == "SignedInteger":
        return ["Int", "-", p_signed(c)]
    if t == "EnumeratedValue":
        return p_enumval(c)
    raise ProjError("case selector " + str(t))


def p_stmts(items):
    return lst(items, p_stmt)


def p_stmt(n):
    if n == "Return":
        return ["Return"]
    if n == "Exit":
        return ["Exit"]
    t = tag(n)
    c = n["0"]
    if t == "Assignment":
        return ["Assign", p_var(c["target"]), p_expr(c["value"])]
    if t == "FbCall":
        return ["FbCall", ident(c["var_name"]), lst(c["params"], p_param)]
    if t == "If":
        return ["If", p_expr(c["expr"]), p_stmts(c["body"]),
                lst(c["else_ifs"], lambda e: ["Elsif", p_expr(e["expr"]), p_stmts(e["body"])]), p_stmts(c["else_body"])]
    if t == "Case":
        return ["Case", p_expr(c["selector"]),
                lst(c["statement_groups"], lambda g: ["CaseEl", lst(g["selectors"], p_casesel), p_stmts(g["statements"])]),
                p_stmts(c["else_body"])]
    if t == "For":
        st = c["step"]
        return ["For", ident(c["control"]), p_expr(c["from"]), p_expr(c["to"]),
                "-" if st == "None" else p_expr(opt(st)), p_stmts(c["body"])]
    if t == "While":
        return ["While", p_expr(c["condition"]), p_stmts(c["body"])]
    if t == "Repeat":
        return ["Repeat", p_stmts(c["body"]), p_expr(c["until"])]
    raise ProjError("statement " + str(t))


def p_body(n):
    """FunctionBlockBodyKind"""
    t = tag(n)
    if n == "Empty" or t == "Empty":
        return ["L"]
    if t == "Statements":
        return p_stmts(n["0"]["body"])
    if t == "Sfc":
        import gram_decl
        return gram_decl.p_sfc(n["0"])
    raise ProjError("body " + str(t))


def p_element(n):
    import gram_decl
    t = tag(n)
    c = n["0"]
    return gram_decl.p_element(t, c)


def project(tree):
    if tag(tree) != "Library":
        raise ProjError("not a library")
    return fold_case(lst(tree["elements"], p_element))


# ------------------------------------------------------------------------------------------------------
# comparison
# ------------------------------------------------------------------------------------------------------
def diff(a, b, path=""):
    """first difference between two normal forms; returns None or (path signature, a-part, b-part)"""
    if isinstance(a, str) or isinstance(b, str):
        if a == b:
            return None
        return (path + "/<leaf>" if isinstance(a, str) and isinstance(b, str) else path + "/<shape>", a, b)
    if a[0] != b[0]:
        return (path + "/<tag:%s|%s>" % (a[0], b[0]), a, b)
    t = a[0]
    if len(a) != len(b):
        return (path + "/%s<len>" % t, a, b)
    for i, (x, y) in enumerate(zip(a[1:], b[1:])):
        sub = "%s" % t if t == "L" else "%s.%d" % (t, i + 1)
        d = diff(x, y, path + "/" + sub)
        if d:
            return d
    return None


def strip_tree(t):
    """Debug tree without positions and original spelling (fallback comparison when a tree cannot be projected)"""
    if isinstance(t, dict):
        if t.get("_") == "SourceSpan":
            return "span"
        return {k: strip_tree(v) for k, v in t.items() if k not in ("span", "position", "keyword_span")}
    if isinstance(t, list):
        return [strip_tree(x) for x in t]
    if isinstance(t, str):
        return t.lower()
    return t
