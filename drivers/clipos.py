"""One problem, one place: whichever command of the CLI reports a lexical / syntax problem of a file reports it at the
same line:column, and that position lies on the offending lexeme (C05: the terminal's view of a label, cli.rs map_label;
used by C05 and C13)."""
import os

import clidrv
import vlib


def cross_command_positions(rep, cov, prop_labels=("cli",)):
    root = clidrv.make_disk(os.path.join(vlib.workdir("clipos"), "disk"))
    faulty = [f for f, c in clidrv.DISK["classof"].items() if c in ("L", "Y")]
    n = 0
    for f in faulty:
        per = {cmd: clidrv.run(root, cmd, [f]) for cmd in ("check", "echo", "tokenize")}
        text = clidrv.file_text(f, clidrv.DISK["classof"][f], None)
        lines = text.split("\n")
        ref = set(tuple(x) for x in per["check"]["located"] if x[0] in ("P0002", "P0031"))
        for cmd in ("echo", "tokenize"):
            n += 1
            got = set(tuple(x) for x in per[cmd]["located"] if x[0] in ("P0002", "P0031") and (cmd == "echo" or x[0] == "P0031"))
            want = ref if cmd == "echo" else set(x for x in ref if x[0] == "P0031")
            if got != want:
                rep.add("same-problem-different-place:%s-vs-check" % cmd, labels=set(prop_labels) | {cmd},
                        detail={"file": f, "check": sorted(ref), cmd: sorted(got)}, replay={"cmd": cmd, "args": [clidrv.path_of(f)]})
        # the place itself: the lexical error is at the '?', the syntax error at the second ':='
        for code, ent, ln, col in ref:
            src = lines[ln - 1] if 0 < ln <= len(lines) else ""
            at = src[col - 1:col + 1]
            ok = (code == "P0031" and at.startswith("?")) or (code == "P0002" and at.startswith(":="))
            n += 1
            if not ok:
                rep.add("cli-position-not-on-the-offending-lexeme:%s" % code, labels=set(prop_labels),
                        detail={"file": f, "line": ln, "col": col, "source_line": src}, replay={"cmd": "check", "args": [clidrv.path_of(f)]})
    cov["cli_position_checks"] = n
