"""Scenarios of Pipeline.tla: which declarations, with which names, dependencies and fault classes - and the
concrete IEC text of each declaration.  `python3 drivers/pipescen.py` (re)generates spec/MC_Pipe_*.tla/.cfg;
the generated files are committed (the specification is the source of truth for the expectations, this module
only provides the constants and the concrete spelling of the same declarations)."""
import os

SPEC = os.path.join(os.path.dirname(os.path.dirname(os.path.abspath(__file__))), "spec")

# kind -> (name, deps, text per fault class)
ENUM = "TYPE\n  LVL : (LO, MID, HI) := LO;\nEND_TYPE\n"
ALIAS = "TYPE\n  LVL2 : LVL := MID;\nEND_TYPE\n"
STRUCT = "TYPE\n  PT : STRUCT\n    x : INT;\n    l : LVL := HI;\n  END_STRUCT;\nEND_TYPE\n"
CALLEE = ("FUNCTION_BLOCK CALLEE\n  VAR_INPUT\n    in1 : INT;\n  END_VAR\n  VAR_OUTPUT\n    out1 : INT;\n  END_VAR\n  VAR CONSTANT\n    k : INT := 2;\n  END_VAR\n"
          "  out1 := in1 + k;\nEND_FUNCTION_BLOCK\n")
USER = ("FUNCTION_BLOCK USER\n  VAR\n    c : CALLEE;\n    v : LVL2 := HI;\n    a : INT;\n  END_VAR\n  c(in1 := a, out1 => a);\n  a := a + 1;\nEND_FUNCTION_BLOCK\n")
FUNC = "FUNCTION FN : INT\n  VAR_INPUT\n    fa : INT;\n  END_VAR\n  FN := fa + 1;\nEND_FUNCTION\n"
MAIN = "PROGRAM MAIN\n  VAR\n    u : USER;\n    n : INT;\n  END_VAR\n  u();\n  n := n + 1;\nEND_PROGRAM\n"
MAINF = "PROGRAM MAIN\n  VAR_EXTERNAL\n    gv : INT;\n  END_VAR\n  VAR\n    u : USER;\n    n : INT;\n  END_VAR\n  u();\n  n := FN(gv);\nEND_PROGRAM\n"
CFG = ("CONFIGURATION CFG\n  VAR_GLOBAL\n    gv : INT := 1;\n  END_VAR\n  RESOURCE RES ON PLC\n    TASK T1 (INTERVAL := T#100ms, PRIORITY := 1);\n"
       "    PROGRAM I1 WITH T1 : MAIN;\n  END_RESOURCE\nEND_CONFIGURATION\n")

SUBR = "TYPE\n  RNG : INT (1..10);\nEND_TYPE\n"
ARRT = "TYPE\n  ARR : ARRAY [1..4] OF INT;\nEND_TYPE\n"
STRT = "TYPE\n  STR10 : STRING[10];\nEND_TYPE\n"
SINIT = "TYPE\n  PT2 : PT := (x := 1);\nEND_TYPE\n"
LATEB = "TYPE\n  LVL3 : LVL;\nEND_TYPE\n"
SUBR_AS_LVL = "TYPE\n  LVL : INT (1..10);\nEND_TYPE\n"
LATEC = "TYPE\n  LVL4 : lvl3;\nEND_TYPE\n"          # an alias of an alias, referring to it in another letter case
STRUCT_AS_TON = "TYPE\n  TON : STRUCT\n    q : INT;\n  END_STRUCT;\nEND_TYPE\n"
XTIMER = "FUNCTION_BLOCK XTIMER\n  VAR\n    a : INT;\n  END_VAR\n  a := a + 3;\nEND_FUNCTION_BLOCK\n"
FUNC_INST = ("FUNCTION FIL : INT\n  VAR_INPUT\n    fa : INT;\n  END_VAR\n  VAR\n    c : CALLEE;\n  END_VAR\n  c(in1 := fa);\n  FIL := fa;\nEND_FUNCTION\n")
VICT2 = ("FUNCTION_BLOCK VICT2\n  VAR\n    c : INT;\n    a : INT;\n    d : CALLEE;\n  END_VAR\n  d(in1 := a);\n  a := a + 4;\nEND_FUNCTION_BLOCK\n")
STRUCT_AS_FN = "TYPE\n  FN : STRUCT\n    q : INT;\n  END_STRUCT;\nEND_TYPE\n"
ENUM_AS_MAIN = "TYPE\n  MAIN : (M_A, M_B) := M_A;\nEND_TYPE\n"
STR_AS_ARR = "TYPE\n  ARR : STRING[10];\nEND_TYPE\n"
FB_AS_LVL = "FUNCTION_BLOCK LVL\n  VAR\n    x : INT;\n  END_VAR\n  x := 1;\nEND_FUNCTION_BLOCK\n"

# scoping: a block that is valid on its own; its faulty version uses a name that IS declared - in a sibling declaration
VICTIM = "FUNCTION_BLOCK VICTIM\n  VAR\n    a : INT;\n  END_VAR\n  a := a + 1;\nEND_FUNCTION_BLOCK\n"
WANDER = "FUNCTION_BLOCK WANDER\n  VAR\n    a : INT;\n  END_VAR\n  a := a + 2;\nEND_FUNCTION_BLOCK\n"

# two configurations that both declare a global gk - one CONSTANT, one not - and a block with an external declaration
# of it: a constant global requires the external declaration to be constant, whichever configuration is visited first
PM = "PROGRAM PM\n  VAR\n    n : INT;\n  END_VAR\n  n := n + 1;\nEND_PROGRAM\n"
CFA = ("CONFIGURATION CFA\n  VAR_GLOBAL CONSTANT\n    gk : INT := 1;\n  END_VAR\n  RESOURCE RA ON PLC\n    TASK TA (INTERVAL := T#100ms, PRIORITY := 1);\n"
       "    PROGRAM IA WITH TA : PM;\n  END_RESOURCE\nEND_CONFIGURATION\n")
CFB = ("CONFIGURATION CFB\n  VAR_GLOBAL\n    gk : INT := 2;\n  END_VAR\n  RESOURCE RB ON PLC\n    TASK TB (INTERVAL := T#100ms, PRIORITY := 1);\n"
       "    PROGRAM IB WITH TB : PM;\n  END_RESOURCE\nEND_CONFIGURATION\n")
PACKER = "FUNCTION_BLOCK PACKER\n  VAR_EXTERNAL CONSTANT\n    gk : INT;\n  END_VAR\n  VAR\n    a : INT;\n  END_VAR\n  a := gk;\nEND_FUNCTION_BLOCK\n"

KINDS = {
    "PM": ("PM", [], PM),
    "GA": ("CFA", ["PM"], CFA),
    "GB": ("CFB", ["PM"], CFB),
    "XE": ("PACKER", [], PACKER),
    "V": ("VICTIM", [], VICTIM),
    "W": ("WANDER", [], WANDER),
    "R": ("RNG", [], SUBR),
    "AR": ("ARR", [], ARRT),
    "ST": ("STR10", [], STRT),
    "SI": ("PT2", ["PT"], SINIT),
    "LB": ("LVL3", ["LVL"], LATEB),
    "RX": ("LVL", [], SUBR_AS_LVL),
    "CX": ("LVL", [], FB_AS_LVL),
    "ASX": ("ARR", [], STR_AS_ARR),
    "LC": ("LVL4", ["LVL3"], LATEC),
    "TTON": ("TON", [], STRUCT_AS_TON),
    "XT": ("XTIMER", [], XTIMER),
    "FI": ("FIL", ["CALLEE"], FUNC_INST),
    "VI": ("VICT2", ["CALLEE"], VICT2),
    "TFN": ("FN", [], STRUCT_AS_FN),
    "TMAIN": ("MAIN", [], ENUM_AS_MAIN),
    "E": ("LVL", [], ENUM),
    "E2": ("LVL2", ["LVL"], ALIAS),
    "S": ("PT", ["LVL"], STRUCT),
    "C": ("CALLEE", [], CALLEE),
    "U": ("USER", ["CALLEE", "LVL2"], USER),
    "F": ("FN", [], FUNC),
    "M": ("MAIN", ["USER"], MAIN),
    "MF": ("MAIN", ["USER", "FN"], MAINF),
    "G": ("CFG", ["MAIN"], CFG),
}

# context-free rule violations (the documented 'Fails' shapes), per declaration kind: (text, code, lexeme the label must name)
RULE_FAULT = {
    "XE": (PACKER.replace("VAR_EXTERNAL CONSTANT", "VAR_EXTERNAL"), "P0018", "gk"),
    "VI": (VICT2.replace("  a := a + 4;\n", "  a := a + 4;\n  c(in1 := a);\n"), "P0021", "c(in1 := a)"),      # c is an INT here, an instance in FIL
    "XT": (XTIMER.replace("    a : INT;\n", "    a : INT;\n    t : TON;\n"), "P0029", "TON"),        # a standard function block that is not implemented
    "V": (VICTIM.replace("a := a + 1;", "c(in1 := a, out1 => a);"), "P0021", "c(in1 := a, out1 => a)"),      # the label covers the invocation; c is an instance of USER, not of VICTIM
    "W": (WANDER.replace("a := a + 2;", "a := n + 2;"), "P0015", "n"),                   # n is a variable of MAIN, not of WANDER
    "R": (SUBR.replace("1..10", "10..1"), "P0004", "10"),
    "E": (ENUM.replace("(LO, MID, HI)", "(LO, MID, HI, LO)"), "P0005", "LO"),
    "E2": (ALIAS.replace(":= MID", ":= NOPE"), "P0014", "NOPE"),
    "S": (STRUCT.replace("    l : LVL := HI;\n", "    x : BOOL;\n"), "P0003", "x"),
    "C": (CALLEE.replace("k : INT := 2;", "k : INT;"), "P0016", "k"),
    "U": (USER.replace("a := a + 1;", "a := zz + 1;"), "P0015", "zz"),
    "F": (FUNC.replace("FN := fa + 1;", "FN := fb + 1;"), "P0015", "fb"),
    "M": (MAIN.replace("n := n + 1;", "n := qq + 1;"), "P0015", "qq"),
    "MF": (MAINF.replace("n := FN(gv);", "n := FN(qq);"), "P0015", "qq"),
    "G": (CFG.replace("WITH T1 : MAIN", "WITH T9 : MAIN"), "P0011", "T9"),
}
# a second, different declaration with the same name (duplicate-name scenarios)
DUP_BODY = {
    "R": SUBR.replace("1..10", "2..9"),
    "R!": SUBR.replace("1..10", "10..1"),                      # the duplicate also has its limits in the wrong order
    "AR": ARRT.replace("1..4", "1..5"),
    "ST": STRT.replace("[10]", "[20]"),
    "SI": SINIT.replace("x := 1", "x := 2"),
    "LB": LATEB,
    "S": STRUCT.replace("    x : INT;\n", "    x : INT;\n    y : INT;\n"),
    "E2": ALIAS.replace(":= MID", ":= HI"),
    "E": "TYPE\n  LVL : (LO, MID, HI, TOP) := LO;\nEND_TYPE\n",
    "C": CALLEE.replace("out1 := in1 + k;", "out1 := in1;"),
    "U": USER.replace("a := a + 1;", "a := a + 2;"),
    "U!": USER.replace("a := a + 1;", "a := ghost + 2;"),      # the duplicate also hides an undefined variable
    "M": MAIN.replace("n := n + 1;", "n := n + 2;"),
    "F": FUNC.replace("fa + 1", "fa + 2"),
}


# the specification's name of a declaration where it differs from the spelled name: a data type that is spelled like a
# function / program lives in another name space
SPEC_NAME = {}
SPACE = {"PM": "pou", "GA": "pou", "GB": "pou", "XE": "fb", "VI": "fb", "FI": "pou", "C": "fb", "U": "fb", "V": "fb", "W": "fb", "CX": "fb", "XT": "fb", "F": "pou", "M": "pou", "MF": "pou", "G": "pou"}     # everything else: "data"


def lex_fault(text):
    i = text.rfind(";")
    return text[:i] + " ? " + text[i:]


def syn_fault(text):
    i = text.rfind(";")
    return text[:i] + " := := " + text[i:]


def decl_text(kind, fault):
    if fault == "none":
        return KINDS[kind][2]
    if fault == "lex":
        return lex_fault(KINDS[kind][2])
    if fault == "syn":
        return syn_fault(KINDS[kind][2])
    if fault == "rule":
        return RULE_FAULT[kind][0]
    if fault.startswith("dup"):
        return DUP_BODY[fault[4:]]
    raise ValueError(fault)


def big_library(n):
    """n groups of (enumeration, alias of it, function block with a variable of the alias): 3n declarations"""
    for i in range(1, n + 1):
        KINDS["BE%d" % i] = ("BEN%d" % i, [], "TYPE\n  BEN%d : (BA%d, BB%d) := BA%d;\nEND_TYPE\n" % (i, i, i, i))
        KINDS["BA%d" % i] = ("BAL%d" % i, ["BEN%d" % i], "TYPE\n  BAL%d : BEN%d;\nEND_TYPE\n" % (i, i))
        KINDS["BF%d" % i] = ("BFB%d" % i, ["BAL%d" % i], "FUNCTION_BLOCK BFB%d\n  VAR\n    v : BAL%d;\n    n : INT;\n  END_VAR\n  n := n + %d;\nEND_FUNCTION_BLOCK\n" % (i, i, i))
        SPACE["BF%d" % i] = "fb"
    return [(k % i, "none") for i in range(1, n + 1) for k in ("BF%d", "BA%d", "BE%d")]


def scenarios():
    """name -> list of (kind, fault)  (fault 'dup:K' = a second declaration named like kind K)"""
    sc = {}
    base = ["E", "E2", "C", "U", "M"]
    sc["valid5"] = [(k, "none") for k in base]
    for i, k in enumerate(base):
        for f in ("lex", "syn", "rule"):
            sc["%s_%s" % (f, k)] = [(x, f if x == k else "none") for x in base]
    for k in ("E", "C", "U", "U!"):
        sc["dup_%s" % k.replace("!", "x")] = [(x, "none") for x in ["E", "E2", "C", "U"]] + [(k.rstrip("!"), "dup:" + k)]
    # a duplicate of every kind of declaration the sort handles separately, and duplicates across kinds
    for k, base in (("R", ["E", "C", "R"]), ("R!", ["E", "C", "R"]), ("AR", ["E", "C", "AR"]), ("ST", ["E", "C", "ST"]),
                    ("SI", ["E", "S", "SI"]), ("LB", ["E", "LB", "C"]), ("S", ["E", "S", "C"]), ("E2", ["E", "E2", "C"])):
        sc["dupk_%s" % k.replace("!", "x")] = [(x, "none") for x in base] + [(k.rstrip("!"), "dup:" + k)]
    # sets WITHOUT any program organization unit: duplicate data types must be found all the same
    sc["dupk_tR"] = [("E", "none"), ("R", "none"), ("R", "dup:R")]
    sc["dupk_tAR"] = [("E", "none"), ("AR", "none"), ("AR", "dup:AR")]
    sc["dupk_tST"] = [("E", "none"), ("ST", "none"), ("ST", "dup:ST")]
    sc["cross_tAS"] = [("E", "none"), ("AR", "none"), ("ASX", "none")]
    # valid sets made of every kind of data type declaration (aliases, structure initialisations ... before / after what they need)
    sc["validLB"] = [("E", "none"), ("LB", "none"), ("C", "none")]
    sc["valid24"] = big_library(8)                 # more than 20 declarations: sorting shortcuts for small inputs do not apply
    sc["validLC"] = [("E", "none"), ("LB", "none"), ("LC", "none"), ("C", "none")]
    sc["validT5"] = [("E", "none"), ("LB", "none"), ("S", "none"), ("SI", "none"), ("C", "none")]
    sc["validT8"] = [("E", "none"), ("E2", "none"), ("LB", "none"), ("S", "none"), ("SI", "none"), ("R", "none"), ("AR", "none"), ("ST", "none")]
    # a VALID data type that has the name of a FAULTY function / program: the fault must still be found
    # (functions and programs are not types: the coincidence of the names is legal and is not a duplicate)
    # a data type named like the standard function block a faulty declaration refers to
    sc["rule_XT"] = [("E", "none"), ("C", "none"), ("TTON", "none"), ("XT", "rule")]
    # an instance name of a FUNCTION must not make the invocation of a same-named INT variable elsewhere look right
    sc["rule_VI"] = [("C", "none"), ("FI", "none"), ("VI", "rule")]
    # (not a context-free fault: it needs the configuration with the constant global - C06 only, not C03)
    sc["ctxrule_GX"] = [("PM", "none"), ("GA", "none"), ("GB", "none"), ("XE", "rule")]
    sc["validGX"] = [("PM", "none"), ("GA", "none"), ("GB", "none"), ("XE", "none")]
    sc["rule_TF"] = [("E", "none"), ("C", "none"), ("TFN", "none"), ("F", "rule")]
    sc["rule_TM"] = [("E", "none"), ("E2", "none"), ("C", "none"), ("U", "none"), ("TMAIN", "none"), ("M", "rule")]
    sc["cross_RX"] = [(x, "none") for x in ["E", "C", "RX"]]
    sc["cross_CX"] = [(x, "none") for x in ["E", "C", "CX"]]
    sc["rule_R"] = [("E", "none"), ("C", "none"), ("R", "rule")]
    sc["rule_V"] = [("E", "none"), ("E2", "none"), ("C", "none"), ("U", "none"), ("V", "rule")]
    sc["rule_W"] = [("E", "none"), ("E2", "none"), ("C", "none"), ("U", "none"), ("M", "none"), ("W", "rule")]
    sc["missing_E"] = [(x, "none") for x in ["E2", "C", "U", "M"]]
    sc["missing_C"] = [(x, "none") for x in ["E", "E2", "U", "M"]]
    sc["valid4"] = [(x, "none") for x in ["E", "E2", "C", "U"]]
    sc["valid3"] = [(x, "none") for x in ["C", "F", "E"]]
    full = ["E", "E2", "S", "C", "U", "F", "MF", "G"]
    sc["valid8"] = [(k, "none") for k in full]
    for k in full:
        for f in ("lex", "rule"):
            sc["%s8_%s" % (f, k)] = [(x, f if x == k else "none") for x in full]
    sc["dup8_F"] = [(k, "none") for k in full] + [("F", "dup:F")]
    sc["dup8_M"] = [(k, "none") for k in full] + [("M", "dup:M")]
    return sc


def tla_fault(f):
    if f.startswith("dup"):
        return "rule" if f.endswith("!") else "none"      # 'U!': the duplicate also contains an undefined variable
    return f


def write_specs():
    names = []
    for name, decls in scenarios().items():
        n = len(decls)
        mod = "MC_Pipe_" + name
        lines = ["---- MODULE %s ----" % mod, "EXTENDS Pipeline",
                 "\\* generated by drivers/pipescen.py - scenario %s" % name,
                 "ScName == " + "<<" + ", ".join('"%s"' % SPEC_NAME.get(k, KINDS[k][0]) for k, f in decls) + ">>",
                 "ScDeps == " + "<<" + ", ".join("{" + ", ".join('"%s"' % d for d in KINDS[k][1]) + "}" for k, f in decls) + ">>",
                 "ScFault == " + "<<" + ", ".join('"%s"' % tla_fault(f) for k, f in decls) + ">>",
                 "ScSortDeps == " + "<<" + ", ".join("{" + ", ".join('"%s"' % d for d in (KINDS[k][1] if k in ("E2", "LB", "LC") or k.startswith("BA") else [])) + "}" for k, f in decls) + ">>",
                 "ScSpace == " + "<<" + ", ".join('"%s"' % SPACE.get(k, "data") for k, f in decls) + ">>",
                 "===="]
        with open(os.path.join(SPEC, mod + ".tla"), "w") as fh:
            fh.write("\n".join(lines) + "\n")
        big = n > 5
        cfg = ["SPECIFICATION Spec", "CONSTANTS", "  N = %d" % n, "  Name <- ScName", "  Deps <- ScDeps", "  Fault <- ScFault", "  Space <- ScSpace", "  SortDeps <- ScSortDeps",
               "  MaxFiles = %d" % (1 if big else 3), "  Arrange = \"%s\"" % ("identity" if big else "all"), "  Deviations = {}", "  Emit = TRUE",
               "INVARIANTS TypeOK NoMasking OrderIndependent NothingLostBySort EmitReplay", "CHECK_DEADLOCK FALSE"]
        with open(os.path.join(SPEC, mod + ".cfg"), "w") as fh:
            fh.write("\n".join(cfg) + "\n")
        # trace validation of recorded analyses of this scenario (PipelineTrace.tla)
        tmod = "PT_" + name
        with open(os.path.join(SPEC, tmod + ".tla"), "w") as fh:
            fh.write("\n".join(["---- MODULE %s ----" % tmod, "EXTENDS PipelineTrace", "\\* generated by drivers/pipescen.py - scenario %s" % name] + lines[3:]) + "\n")
        tcfg = ["SPECIFICATION TSpec", "CONSTANTS", "  N = %d" % n, "  Name <- ScName", "  Deps <- ScDeps", "  Fault <- ScFault", "  Space <- ScSpace", "  SortDeps <- ScSortDeps",
                "  MaxFiles = 1", "  Arrange = \"identity\"", "  Deviations = {}", "  Emit = FALSE", "  NRules = 11",
                "INVARIANTS TraceInv Verdict", "CHECK_DEADLOCK FALSE"]
        with open(os.path.join(SPEC, tmod + ".cfg"), "w") as fh:
            fh.write("\n".join(tcfg) + "\n")
        names.append(name)
    # deviation configurations: the named deviations must be caught by the properties (spec-level self test)
    for dev, scen in (("CollapseEqualNames", "dup_Ux"), ("DropParseDiagsWhenAnalysisOk", "lex_M")):
        src = open(os.path.join(SPEC, "MC_Pipe_%s.cfg" % scen)).read().replace("Deviations = {}", 'Deviations = {"%s"}' % dev).replace("Emit = TRUE", "Emit = FALSE")
        with open(os.path.join(SPEC, "DEV_Pipe_%s.cfg" % dev), "w") as fh:
            fh.write(src)
    return names


if __name__ == "__main__":
    print(write_specs())
