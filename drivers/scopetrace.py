"""Symbol table operations recorded by the guarded hook in analyzer/src/symbol_table.rs -> ScopeTrace.tla
(implementation -> specification).  The events arrive in the `stage_events` of an analysed case, interleaved with the
stage events of PipelineTrace: the operations before an `xform` / `rule` event belong to that stage's walk."""
import json
import os
import re

import vlib


def split(stage_events):
    """-> (events without the scope operations, [walk: (table, stage name, [op ...])])"""
    rest, walks, cur = [], [], []
    for e in stage_events:
        if e.get("ev") == "scope":
            cur.append(e)
            continue
        rest.append(e)
        if cur and e.get("ev") in ("xform", "rule", "result"):
            table = "type" if "Type" in cur[0].get("table", "") else "decl"
            ops = []
            for o in cur:
                k = o.get("k")
                if k is not None:
                    m = re.search(r"name: (.*?) }", k)
                    k = (m.group(1) if m else k).lower()
                op = {"ev": "op", "op": o["op"]}
                if k is not None:
                    op["k"] = k
                if "r" in o:
                    op["r"] = bool(o["r"])
                ops.append(op)
            walks.append((table, e.get("stage") or ("rule%s" % e["index"] if "index" in e else e["ev"]), ops))
            cur = []
    if cur:
        walks.append(("decl", "unterminated", [{"ev": "op", "op": "?"}]))
    return rest, walks


def validate(name, results, cov, chunks=4):
    """results: harness results (with stage_events).  Returns [(case index, table, stage, first unmatched record)]"""
    lines = [[] for _ in range(chunks)]
    meta = {}
    tid = 0
    nwalks = 0
    for i, rr in enumerate(results):
        if "stage_events" not in rr or "panic" in rr or "abort" in rr or "timeout" in rr:
            continue
        _, walks = split(rr["stage_events"])
        for table, stage, ops in walks:
            c = lines[tid % chunks]
            c.append({"ev": "walk", "table": table, "tid": tid})
            c.extend(ops)
            c.append({"ev": "end"})
            meta[tid] = (i, table, stage)
            tid += 1
            nwalks += 1
    if not nwalks:
        return []
    wd = vlib.workdir("scopetrace_" + name)
    paths = []
    for c, ls in enumerate(lines):
        if not ls:
            continue
        p = os.path.join(wd, "s%d.ndjson" % c)
        with open(p, "w") as fh:
            for e in ls:
                fh.write(json.dumps(e) + "\n")
        paths.append((p, ls))
    from concurrent.futures import ThreadPoolExecutor
    with ThreadPoolExecutor(max_workers=len(paths)) as ex:
        vals = list(ex.map(lambda pl: vlib.tlc_trace("ScopeTrace.tla", "ScopeTrace.cfg", pl[0], name="scopetrace_%s_%s" % (name, os.path.basename(pl[0]))), paths))
    bad = []
    for (p, ls), v in zip(paths, vals):
        cov["states"] += v["states"]
        cov["transitions"] += v["transitions"]
        for t, recno in v["bad"]:
            i, table, stage = meta[t]
            bad.append((i, table, stage, ls[recno - 1] if recno - 1 < len(ls) else {}))
    cov["scope_walks_validated"] = cov.get("scope_walks_validated", 0) + nwalks
    cov["scope_trace_events"] = cov.get("scope_trace_events", 0) + sum(len(ls) for _, ls in paths)
    cov["scope_walks_rejected"] = cov.get("scope_walks_rejected", 0) + len(bad)
    return bad
