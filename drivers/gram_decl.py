"""Projection of declarations (dsl::common / sfc / configuration) into the normal form of Grammar.tla."""
from gram import (ProjError, etype, ident, lst, opt, p_addr, p_body, p_const, p_enumval, p_expr, p_integer, p_signed, p_stmts,
                  p_symvar, p_var, tag, typ)

VCLASS = {"Var": "VAR", "VarTemp": "VAR_TEMP", "Input": "VAR_INPUT", "Output": "VAR_OUTPUT", "InOut": "VAR_IN_OUT",
          "External": "VAR_EXTERNAL", "Global": "VAR_GLOBAL", "Access": "VAR_ACCESS"}
QUAL = {"Unspecified": "-", "Constant": "CONSTANT", "Retain": "RETAIN", "NonRetain": "NON_RETAIN"}
EDGE = {"Rising": "R_EDGE", "Falling": "F_EDGE"}
WIDTH = {"String": "STRING", "WString": "WSTRING"}


def sint(n):
    return ["Int", "-", p_signed(n)]


def p_range(n):
    return ["Range", sint(n["start"]), sint(n["end"])]


def p_arr_el(n):
    t = tag(n)
    c = n["0"]
    if t == "Constant":
        return p_const(c)
    if t == "EnumValue":
        return p_enumval(c)
    if t == "Repeated":
        init = c["init"]
        return ["Rep", p_integer(c["size"]), "-" if init == "None" else p_arr_el(opt(init))]
    raise ProjError("array element " + str(t))


def p_elinit(n):
    v = n["init"]
    t = tag(v)
    c = v["0"]
    if t == "Constant":
        val = p_const(c)
    elif t == "EnumeratedValue":
        val = p_enumval(c)
    elif t == "Array":
        val = ["ArrInit", lst(c, p_arr_el)]
    elif t == "Structure":
        val = ["StructVal", lst(c, p_elinit)]
    else:
        raise ProjError("struct element init " + str(t))
    return ["ElInit", ident(n["name"]), val]


def p_arrspec(spec, inits):
    t = tag(spec)
    c = spec["0"]
    if t == "Subranges":
        return ["ArrInline", lst(c["ranges"], p_range), typ(c["type_name"]), lst(inits, p_arr_el)]
    if t == "Type":
        return ["ArrRef", typ(c), lst(inits, p_arr_el)]
    raise ProjError("array spec " + str(t))


def p_subrspec(n, default="-"):
    t = tag(n)
    c = n["0"]
    if t == "Specification":
        r = c["subrange"]
        return ["SubrInline", etype(c["type_name"]), sint(r["start"]), sint(r["end"]), default]
    if t == "Type":
        return ["TRef", typ(c), default]
    raise ProjError("subrange spec " + str(t))


def chars(n):
    """Option<Vec<char>> or Option<String>"""
    if n == "None":
        return "-"
    v = opt(n)
    if isinstance(v, dict) and "$s" in v:
        return ["Str", v["$s"]]
    return ["Str", "".join(x["$c"] for x in v)]


def p_spec(n):
    """InitialValueAssignmentKind -> the syntactic specification it was written as"""
    t = tag(n)
    c = n["0"]
    if t == "None":
        return ["NoSpec"]
    if t == "Simple":
        iv = c["initial_value"]
        return ["TRef", typ(c["type_name"]), "-" if iv == "None" else p_const(opt(iv))]
    if t == "LateResolvedType":
        return ["TRef", typ(c), "-"]
    if t == "EnumeratedType":
        iv = c["initial_value"]
        return ["TRef", typ(c["type_name"]), "-" if iv == "None" else p_enumval(opt(iv))]
    if t == "EnumeratedValues":
        iv = c["initial_value"]
        return ["EnumInline", lst(c["values"], p_enumval), "-" if iv == "None" else p_enumval(opt(iv))]
    if t == "Subrange":
        return p_subrspec(c)
    if t == "Structure":
        if not c["elements_init"]:
            return ["TRef", typ(c["type_name"]), "-"]
        return ["StructInit", typ(c["type_name"]), lst(c["elements_init"], p_elinit)]
    if t == "FunctionBlock":
        if not c["init"]:
            return ["TRef", typ(c["type_name"]), "-"]
        return ["StructInit", typ(c["type_name"]), lst(c["init"], p_elinit)]
    if t == "Array":
        return p_arrspec(c["spec"], c["initial_values"])
    if t == "String":
        ln = c["length"]
        ln = "-" if ln == "None" else p_integer(opt(ln))
        iv = chars(c["initial_value"])
        if ln == "-":
            return ["TRef", WIDTH[c["width"]], iv]
        return ["StrSpec", WIDTH[c["width"]], ln, iv]
    raise ProjError("initializer " + str(t))


def p_vardecl(n):
    idn = n["identifier"]
    cls = VCLASS[n["var_type"]]
    q = QUAL[n["qualifier"]]
    spec = p_spec(n["initializer"])
    if tag(idn) == "Symbol":
        return ["Var", ident(idn["0"]), cls, q, spec]
    if tag(idn) == "Direct":
        d = idn["0"]
        nm = d["name"]
        return ["LocVar", "-" if nm == "None" else ident(opt(nm)), p_addr(d["address_assignment"]), spec, cls, q]
    raise ProjError("variable identifier")


def p_edge(n):
    return ["EdgeVar", ident(n["identifier"]), EDGE[n["direction"]], QUAL[n["qualifier"]]]


def p_typedecl(n):
    t = tag(n)
    c = n["0"]
    if t == "Enumeration":
        si = c["spec_init"]
        d = si["default"]
        dv = "-" if d == "None" else p_enumval(opt(d))
        sp = si["spec"]
        if tag(sp) == "Values":
            return ["TypeDecl", typ(c["type_name"]), ["EnumInline", lst(sp["0"]["values"], p_enumval), dv]]
        return ["TypeDecl", typ(c["type_name"]), ["TRef", typ(sp["0"]), dv]]
    if t == "Subrange":
        d = c["default"]
        return ["TypeDecl", typ(c["type_name"]), p_subrspec(c["spec"], "-" if d == "None" else sint(opt(d)))]
    if t == "Simple":
        return ["TypeDecl", typ(c["type_name"]), p_spec(c["spec_and_init"])]
    if t == "Array":
        return ["TypeDecl", typ(c["type_name"]), p_arrspec(c["spec"], c["init"])]
    if t == "Structure":
        return ["TypeDecl", typ(c["type_name"]),
                ["StructDecl", lst(c["elements"], lambda e: ["Elem", ident(e["name"]), p_spec(e["init"])])]]
    if t == "StructureInitialization":
        # the dsl node has no field for the base type: projected as "?" so that the loss is visible
        return ["TypeDecl", typ(c["type_name"]), ["StructInit", "?", lst(c["elements_init"], p_elinit)]]
    if t == "String":
        return ["TypeDecl", typ(c["type_name"]), ["StrSpec", WIDTH[c["width"]], p_integer(c["length"]), chars(c["init"])]]
    if t == "LateBound":
        return ["TypeDecl", typ(c["data_type_name"]), ["TRef", typ(c["base_type_name"]), "-"]]
    raise ProjError("type declaration " + str(t))


def p_gref(c):
    parts = []
    r = c["resource_name"]
    if r != "None":
        parts.append(ident(opt(r)))
    parts.append(ident(c["global_var_name"]))
    e = c["structure_element_name"]
    if e != "None":
        parts.append(ident(opt(e)))
    if len(parts) == 1:
        return ["NameRef", parts[0]]
    return ["GRef", ["L"] + parts]


def p_pcsrc(n):
    t = tag(n)
    c = n["0"]
    if t == "Constant":
        return p_const(c)
    if t == "EnumeratedValue":
        ev = p_enumval(c)
        return ["NameRef", ev[2]] if ev[1] == "-" else ev      # a bare name: enumerated value or global variable
    if t == "GlobalVarReference":
        return p_gref(c)
    if t == "DirectVariable":
        return p_addr(c)
    raise ProjError("program connection source " + str(t))


def p_pcsink(n):
    t = tag(n)
    c = n["0"]
    if t == "GlobalVarReference":
        return p_gref(c)
    if t == "DirectVariable":
        return p_addr(c)
    raise ProjError("program connection sink " + str(t))


def oid(n):
    return "-" if n == "None" else ident(opt(n))


def p_progconf(c):
    st = c["storage"]
    return ["ProgConf", ident(c["name"]), "-" if st == "None" else QUAL[opt(st)], oid(c["task_name"]), ident(c["type_name"]),
            lst(c["fb_tasks"], lambda f: ["FbTask", ident(f["fb_name"]), ident(f["task_name"])]),
            lst(c["sources"], lambda x: ["Src", p_symvar(x["dst"]), p_pcsrc(x["src"])]),
            lst(c["sinks"], lambda x: ["Sink", p_symvar(x["src"]), p_pcsink(x["dst"])])]


def p_task(c):
    iv = c["interval"]
    return ["Task", ident(c["name"]), "-" if iv == "None" else p_const({"_": "Duration", "0": opt(iv)}), str(int(c["priority"]))]


def p_resource(c):
    return ["Res", ident(c["name"]), ident(c["resource"]), lst(c["global_vars"], p_vardecl), lst(c["tasks"], p_task),
            lst(c["programs"], p_progconf)]


def p_config(c):
    if len(c["resource_decl"]) != 1:
        raise ProjError("resources")

    def path(x):
        p = [ident(i) for i in x["fb_path"]]
        fn = x.get("fb_name")
        if fn is not None and ident(fn) != "":
            p.append(ident(fn))
        return ["L"] + p

    fbi = lst(c["fb_inits"], lambda x: ["FbInit", ident(x["resource_name"]), ident(x["program_name"]), path(x), typ(x["type_name"]),
                                        lst(x["initializer"], p_elinit)])
    loc = lst(c["located_var_inits"], lambda x: ["LocInit", ident(x["resource_name"]), ident(x["program_name"]), path(x),
                                                 "-" if x["address"] == "None" else p_addr(opt(x["address"])), p_spec(x["initializer"])])
    return ["Config", ident(c["name"]), lst(c["global_var"], p_vardecl), p_resource(c["resource_decl"][0]), fbi, loc]


DIRN = {"ReadOnly": "READ_ONLY", "ReadWrite": "READ_WRITE"}


def p_access(c):
    d = c["direction"]
    return ["Access", ident(c["access_name"]), p_symvar(c["symbolic_variable"]), typ(c["type_name"]), "-" if d == "None" else DIRN[opt(d)]]


def p_element(t, c):
    if t == "DataTypeDeclaration":
        return p_typedecl(c)
    if t == "FunctionBlockDeclaration":
        return ["FB", ident(c["name"]), lst(c["variables"], p_vardecl), lst(c["edge_variables"], p_edge), p_body(c["body"])]
    if t == "FunctionDeclaration":
        return ["Func", ident(c["name"]), typ(c["return_type"]), lst(c["variables"], p_vardecl), lst(c["edge_variables"], p_edge),
                p_stmts(c["body"])]
    if t == "ProgramDeclaration":
        return ["Prog", ident(c["name"]), lst(c["variables"], p_vardecl), ["L"], lst(c["access_variables"], p_access), p_body(c["body"])]
    if t == "ConfigurationDeclaration":
        return p_config(c)
    raise ProjError("library element " + str(t))


def p_aqual(n):
    if n == "None":
        return "-"
    q = opt(n)
    if isinstance(q, str):
        return ["Q", q]
    t = tag(q)
    tk = q["0"]
    name = {"PR": "P1", "PF": "P0"}.get(t, t)
    if tag(tk) == "Duration":
        return ["QT", name, p_const({"_": "Duration", "0": tk["0"]})]
    return ["QT", name, ["TimeVar", ident(tk["0"])]]


def p_step(c):
    return ["Step", ident(c["name"]),
            lst(c["action_associations"], lambda a: ["Assoc", ident(a["name"]), p_aqual(a["qualifier"]), lst(a["indicators"], ident)])]


def p_sfc_elem(n):
    t = tag(n)
    c = n["0"]
    if t == "Step":
        return p_step(c)
    if t == "Transition":
        pr = c["priority"]
        return ["Trans", oid(c["name"]), "-" if pr == "None" else str(int(opt(pr))), lst(c["from"], ident), lst(c["to"], ident),
                p_expr(c["condition"])]
    if t == "Action":
        return ["Action", ident(c["name"]), p_body(c["body"])]
    raise ProjError("sfc element " + str(t))


def p_sfc(c):
    return ["Sfc", lst(c["networks"], lambda n: ["Net", p_step(n["initial_step"]), lst(n["elements"], p_sfc_elem)])]
