"""Conformance of `ironplcc lsp --stdio` with Lsp.tla: fresh-server tables, replay of TLC behaviours,
comparison frame by frame."""
import os
import shutil
import tempfile
from concurrent.futures import ThreadPoolExecutor

import doctexts
import lspdrv
import vlib


class Tables:
    """Diag(state, u) and Tokens(text), measured on freshly started servers (document u opened last)."""

    def __init__(self, texts, nuri=2, repeats=2):
        self.texts = texts
        self.nuri = nuri
        self.repeats = repeats
        self.diag = {}       # (state tuple, u) -> sorted diag list
        self.tok = {}        # text id -> data list or None
        self.unstable = []   # entries that differ between fresh runs

    def _measure_diag(self, key):
        st, u = key
        msgs = []
        v = 0
        for w in range(1, self.nuri + 1):
            if w != u and st[w - 1] != 0:
                v += 1
                msgs.append(lspdrv.m_open(lspdrv.URI[w], self.texts[st[w - 1]], v))
        v += 1
        if u != 0 and st[u - 1] == 0:
            # the document is not open in this state: the only notification that leaves it so is an
            # empty change list
            msgs.append(lspdrv.m_change(lspdrv.URI[u], [], v))
        else:
            text_u = self.texts[st[u - 1]] if u != 0 else "x"
            msgs.append(lspdrv.m_open(lspdrv.URI[u], text_u, v))
        msgs += [lspdrv.m_shutdown(99), lspdrv.M_EXIT]
        seen = []
        for _ in range(self.repeats):
            r = lspdrv.run_server(msgs)
            obs = [o for o in lspdrv.observe(r["frames"]) if o["k"] == "pub"]
            if not obs or obs[-1]["u"] != u:
                seen.append(("NO-PUBLISH", r["rc"]))
            else:
                seen.append(tuple(tuple(d) for d in obs[-1]["diags"]))
        if len(set(seen)) > 1:
            self.unstable.append({"state": list(st), "u": u, "seen": [list(map(list, s)) if s and s[0] != "NO-PUBLISH" else s for s in seen]})
        return seen[0]

    def _measure_tok(self, t):
        msgs = [lspdrv.m_open(lspdrv.URI[1], self.texts[t], 1), lspdrv.m_semtok(2, lspdrv.URI[1]),
                lspdrv.m_shutdown(99), lspdrv.M_EXIT]
        r = lspdrv.run_server(msgs)
        for o in lspdrv.observe(r["frames"]):
            if o["k"] == "resp" and o["id"] == 2:
                return None if o["result"] is None else tuple(o["result"].get("data", []))
        return "NO-RESPONSE"

    def fill(self, diag_keys, tok_keys):
        dk = [k for k in set(diag_keys) if k not in self.diag]
        tk = [k for k in set(tok_keys) if k not in self.tok and k != 0]
        with ThreadPoolExecutor(max_workers=vlib.NCPU) as ex:
            for k, v in zip(dk, ex.map(self._measure_diag, dk)):
                self.diag[k] = v
            for k, v in zip(tk, ex.map(self._measure_tok, tk)):
                self.tok[k] = v
        self.tok[0] = None


def needed_keys(replays):
    dk, tk = set(), set()
    for r in replays:
        for o in r["out"]:
            if o["k"] == "pub":
                dk.add((tuple(o["st"]), o["u"]))
            elif o["k"] == "resp" and o.get("what") == "semtok":
                tk.add(o["st"])
    return dk, tk


def compare(replay, result, tables, expect_exit=True):
    """Returns None if the observed traffic is the behaviour the specification computed, else a signature."""
    obs = lspdrv.observe(result["frames"])
    exp = replay["out"]
    if result["timeout"]:
        return "server-hang"
    # the driver always closes with shutdown(900000)/exit when the history does not
    closing = not replay["hist"] or replay["hist"][-1]["k"] != "exit"
    if closing:
        exp = exp + [{"k": "resp", "id": 900000, "what": "shutdown"}]
    if result["rc"] != 0:
        last = "start"
        n_in = 0
        return "exit-status:%s:after=%s" % (result["rc"], last_consumed_kind(replay, obs))
    if len(obs) != len(exp):
        kinds_o = [o["k"] for o in obs]
        kinds_e = [e["k"] for e in exp]
        return "frame-count:expected=%s:observed=%s" % ("".join(k[0] for k in kinds_e), "".join(k[0] for k in kinds_o))
    for i, (o, e) in enumerate(zip(obs, exp)):
        if e["k"] == "pub":
            if o["k"] != "pub":
                return "expected-publish-got-%s" % o["k"]
            if o["u"] != e["u"]:
                return "publish-wrong-document"
            if o["v"] != e["v"]:
                return "publish-wrong-version"
            want = tables.diag[(tuple(e["st"]), e["u"])]
            if tuple(tuple(d) for d in o["diags"]) != want:
                return "publish-diagnostics-differ-from-fresh-server"
        elif e["k"] == "resp":
            if o["k"] != "resp" or o["id"] != e["id"]:
                return "expected-response-%s-got-%s" % (e["what"], o["k"])
            if e["what"] == "semtok":
                want = tables.tok[e["st"]] if e["u"] != 0 else None
                got = None if o["result"] is None else tuple(o["result"].get("data", []))
                if got != want:
                    return "semtok-differs-from-fresh-server"
            elif e["what"] == "shutdown":
                if o["result"] is not None:
                    return "shutdown-result"
        elif e["k"] == "err":
            if o["k"] != "err" or o["id"] != e["id"]:
                return "expected-error-response-got-%s" % o["k"]
            if o.get("code") != -32601:
                return "error-code-not-MethodNotFound"
        elif e["k"] == "errp":
            if o["k"] != "err" or o["id"] != e["id"]:
                return "expected-error-response-for-invalid-params-got-%s" % o["k"]
    return None


def last_consumed_kind(replay, obs):
    """kind of the first client message whose replies are missing (the one the server died on)"""
    n_out = len(obs)
    produced = 0
    for m in replay["hist"]:
        k = m["k"]
        makes = 1 if k in ("open", "change", "semtok", "unkreq", "badreq", "shutdown") else 0
        if produced + makes > n_out:
            return k
        produced += makes
        if makes == 0 and produced == n_out:
            # cannot tell whether this silent message or a later one killed the server: name the silent kind
            pass
    silent = [m["k"] for m in replay["hist"] if m["k"] in ("cresp", "unknotif", "badnotif", "close")]
    return silent[0] if silent else "end"


def labels_of(replay):
    labs = set()
    for m in replay["hist"]:
        k = m["k"]
        if k == "change":
            k = "change%d" % len(m["ts"])
        if k == "open" and m["u"] == 0:
            k = "open_nf"
        labs.add(k)
    return labs


def run_replays(replays, texts, jobs=None):
    def one(r):
        return lspdrv.run_server(lspdrv.concretize(r["hist"], texts))
    with ThreadPoolExecutor(max_workers=jobs or vlib.NCPU) as ex:
        return list(ex.map(one, replays))


# ------------------------------------------------------------------------------------------
# CLI clause of C11
# ------------------------------------------------------------------------------------------
def cli_diags_for_state(st, texts, nuri=2):
    """runs `ironplcc check <dir>` on files holding the contents of the document state; returns
    (rc, {u: sorted [(code, line0, col0)]}, unlocated codes)"""
    d = tempfile.mkdtemp(prefix="vp_c11_", dir=vlib.WORK)
    try:
        names = {}
        for u in range(1, nuri + 1):
            if st[u - 1] != 0:
                n = lspdrv.fname(u)
                names[n] = u
                with open(os.path.join(d, n), "w", newline="") as f:
                    f.write(texts[st[u - 1]])
        r = vlib.run_cli(["check", d])
        per = {u: [] for u in names.values()}
        unloc = []
        for code, f, line, col, locs in vlib.parse_cli_diags(r["stderr"], all_locations=True):
            if f is None:
                unloc.append(code)
                continue
            # like the server, a diagnostic belongs to every file one of its labels names; for a file its position is
            # that of the (first) label that lies in THAT file - a position in another file's text says nothing about it
            hit = False
            for lf in sorted(set(os.path.basename(x[0]) for x in locs)):
                u = names.get(lf)
                if u is not None:
                    here = [x for x in locs if os.path.basename(x[0]) == lf]
                    per[u].append((code, here[0][1] - 1, here[0][2] - 1))
                    hit = True
            if not hit:
                unloc.append(code)
        return r["rc"], {u: sorted(v) for u, v in per.items()}, unloc, r
    finally:
        shutil.rmtree(d, ignore_errors=True)
