"""Concretiser for the abstract units of Unit.tla: unit (JSON from TLC) -> IEC 61131-3 source text.

The text is assembled from labelled pieces so that the byte range of every lexeme the specification can refer
to (a variable occurrence, an element name, a subrange bound, ...) is known: `sites` maps a label to (start, end).
render_decls() returns one text per top-level declaration so that C03 / C06 can permute and partition them.
"""


class Out:
    def __init__(self):
        self.parts = []
        self.pos = 0
        self.sites = {}

    def w(self, text, site=None):
        b = text.encode("utf-8")
        if site is not None:
            self.sites.setdefault(site, []).append((self.pos, self.pos + len(b)))
        self.parts.append(text)
        self.pos += len(b)
        return self

    def text(self):
        return "".join(self.parts)


def init_text(init):
    if init[0] == "-":
        return ""
    if init[0] in ("int", "bool", "enum"):
        return " := " + init[1]
    raise ValueError(init)


USEQ = False       # unit["useq"]: enumeration values used as initial values are written with their type prefix


SFC = set()         # unit["sfc"]: POUs whose body is a sequential function chart;  TCOND: the variable a transition tests
TCOND = {}
USEQ_ALIAS = False  # unit["useqalias"]: ... initial values of variables / structure elements with the prefix of an alias


def enumq(ty, v, decl=False):
    """the spelling of enumeration value v of type ty where it is USED (LEVEL2 is an alias of LEVEL);
    decl: the default of a type declaration (never written with the alias)"""
    if USEQ_ALIAS and not decl and ty in ("LEVEL", "LEVEL2", "LEVEL3"):
        return "LEVEL2#" + v
    return ("LEVEL" if ty in ("LEVEL", "LEVEL2", "LEVEL3") else ty) + "#" + v if USEQ else v


def type_decl(o, t):
    n = t["n"]
    o.w("TYPE\n  ").w(n, ("type", n)).w(" : ")
    k = t["k"]
    if k == "enum":
        o.w("(")
        for i, v in enumerate(t["vals"]):
            if i:
                o.w(", ")
            if (i + 1) in t.get("qual", []):
                o.w(n + "#")
            o.w(v, ("enumvalue", n, v, i))
        o.w(") := ").w(enumq(n, t["def"], True), ("enumdefault", n)).w(";\n")
    elif k == "alias":
        o.w(t["base"], ("aliasbase", n)).w(" := ").w(enumq(t["base"], t["def"], True), ("aliasdefault", n)).w(";\n")
    elif k == "struct":
        o.w("STRUCT\n")
        for i, e in enumerate(t["elems"]):
            o.w("    ").w(e["n"], ("elem", n, e["n"], i)).w(" : ").w(e["ty"], ("elemtype", n, e["n"]))
            if e["init"][0] != "-":
                o.w(" := ").w(enumq(e["ty"], e["init"][1]) if e["init"][0] == "enum" else e["init"][1], ("eleminit", n, e["n"]))
            o.w(";\n")
        o.w("  END_STRUCT;\n")
    elif k == "subrange":
        o.w("INT (").w(str(t["lo"]), ("subrange-lo", n)).w("..").w(str(t["hi"]), ("subrange-hi", n)).w(");\n")
    elif k == "array":
        o.w("ARRAY [%d..%d] OF INT;\n" % (t["lo"], t["hi"]))
    else:
        raise ValueError(k)
    o.w("END_TYPE\n")


def var_blocks(o, pname, vs, indent="  "):
    i = 0
    while i < len(vs):
        cls, q = vs[i]["cls"], vs[i]["q"]
        j = i
        while j < len(vs) and (vs[j]["cls"], vs[j]["q"]) == (cls, q):
            j += 1
        o.w(indent + cls + ("" if q == "-" else " " + q) + "\n")
        for v in vs[i:j]:
            o.w(indent + "  ").w(v["n"], ("vardecl", pname, v["n"])).w(" : ").w(v["ty"], ("vartype", pname, v["n"]))
            if v["init"][0] != "-":
                o.w(" := ").w(enumq(v["ty"], v["init"][1]) if v["init"][0] == "enum" else v["init"][1], ("varinit", pname, v["n"]))
            o.w(";\n")
        o.w(indent + "END_VAR\n")
        i = j


def var_type(pou, name):
    for v in pou["vars"]:
        if v["n"] == name:
            return v["ty"]
    return None


def cond(o, pou, name, si):
    """a boolean expression over the control variable"""
    if var_type(pou, name) == "BOOL":
        o.w(name, ("use", pou["n"], si, "wrap", name))
    else:
        o.w(name, ("use", pou["n"], si, "wrap", name)).w(" > 0")


def stmt_core(o, pou, s, si):
    pn = pou["n"]
    if s["k"] == "assign":
        o.w(s["tgt"], ("use", pn, si, "tgt", s["tgt"])).w(" := ")
        src = s["src"]
        if src[0] == "var":
            o.w(src[1], ("use", pn, si, "src", src[1]))
        elif src[0] == "int":
            o.w(src[1])
        elif src[0] == "enumv":
            o.w(src[1], ("use", pn, si, "enumv", src[1]))
        elif src[0] == "sum":
            o.w(src[1], ("use", pn, si, "src", src[1])).w(" + ").w(src[2], ("use", pn, si, "src", src[2]))
        elif src[0] == "fcall":
            o.w(src[1], ("fcall", pn, si)).w("(").w(src[2], ("use", pn, si, "src", src[2])).w(")")
        elif src[0] == "nested":
            o.w("((").w(src[1], ("use", pn, si, "src", src[1])).w(" + (").w(src[2], ("use", pn, si, "src", src[2])).w(" * 2)) - 1)")
        elif src[0] == "neg":
            o.w("- ").w(src[1], ("use", pn, si, "src", src[1]))
        elif src[0] == "field":
            o.w(src[1], ("use", pn, si, "src", src[1])).w(".").w(src[2])
        elif src[0] == "index":
            o.w(src[1], ("use", pn, si, "src", src[1])).w("[").w(src[2], ("use", pn, si, "src", src[2])).w("]")
        else:
            raise ValueError(src)
        o.w(";")
    else:
        start = o.pos
        o.w(s["inst"], ("inst", pn, si)).w("(")
        first = True
        for f, a in s["named"]:
            o.w("" if first else ", ").w(f, ("formal", pn, si, f)).w(" := ").w(a, ("use", pn, si, "arg", a))
            first = False
        for a in s["pos"]:
            o.w("" if first else ", ").w(a, ("use", pn, si, "pos", a))
            first = False
        for f, t in s["outs"]:
            o.w("" if first else ", ").w(f, ("outformal", pn, si, f)).w(" => ").w(t, ("use", pn, si, "out", t))
            first = False
        o.w(")")
        o.sites.setdefault(("call", pn, si), []).append((start, o.pos))
        o.w(";")


def statement(o, pou, s, si, indent="  "):
    w = s["wrap"]
    kind = w[0]
    o.w(indent)
    if kind == "-":
        stmt_core(o, pou, s, si)
    elif kind == "if":
        o.w("IF ")
        cond(o, pou, w[1], si)
        o.w(" THEN ")
        stmt_core(o, pou, s, si)
        o.w(" END_IF;")
    elif kind == "elsif":
        o.w("IF FALSE THEN ; ELSIF ")
        cond(o, pou, w[1], si)
        o.w(" THEN ")
        stmt_core(o, pou, s, si)
        o.w(" END_IF;")
    elif kind == "else":
        o.w("IF FALSE THEN ; ELSE ")
        stmt_core(o, pou, s, si)
        o.w(" END_IF;")
    elif kind == "case":
        o.w("CASE ").w(w[1], ("use", pou["n"], si, "wrap", w[1])).w(" OF 1: ")
        stmt_core(o, pou, s, si)
        o.w(" END_CASE;")
    elif kind == "for":
        o.w("FOR ").w(w[1], ("use", pou["n"], si, "wrap", w[1])).w(" := 1 TO 3 DO ")
        stmt_core(o, pou, s, si)
        o.w(" END_FOR;")
    elif kind in ("forfrom", "forto", "forby"):
        o.w("FOR ").w(w[2], ("use", pou["n"], si, "ctl", w[2])).w(" := ")
        if kind == "forfrom":
            o.w(w[1], ("use", pou["n"], si, "wrap", w[1])).w(" TO 3 DO ")
        elif kind == "forto":
            o.w("1 TO ").w(w[1], ("use", pou["n"], si, "wrap", w[1])).w(" DO ")
        else:
            o.w("1 TO 3 BY ").w(w[1], ("use", pou["n"], si, "wrap", w[1])).w(" DO ")
        stmt_core(o, pou, s, si)
        o.w(" END_FOR;")
    elif kind == "while":
        o.w("WHILE ")
        cond(o, pou, w[1], si)
        o.w(" DO ")
        stmt_core(o, pou, s, si)
        o.w(" END_WHILE;")
    elif kind == "repeat":
        o.w("REPEAT ")
        stmt_core(o, pou, s, si)
        o.w(" UNTIL ")
        cond(o, pou, w[1], si)
        o.w(" END_REPEAT;")
    else:
        raise ValueError(kind)
    o.w("\n")


def pou_decl(o, p):
    kw = {"fb": ("FUNCTION_BLOCK", "END_FUNCTION_BLOCK"), "prog": ("PROGRAM", "END_PROGRAM"), "func": ("FUNCTION", "END_FUNCTION")}[p["k"]]
    o.w(kw[0] + " ").w(p["n"], ("pou", p["n"]))
    if p["k"] == "func":
        o.w(" : INT")
    o.w("\n")
    var_blocks(o, p["n"], p["vars"])
    if p["n"] in SFC:
        # the body as a sequential function chart: the statements are the body of an action, a transition tests a variable
        tc = TCOND.get(p["n"], "-")
        o.w("  INITIAL_STEP s0 :\n    act (N);\n  END_STEP\n  STEP s1 :\n  END_STEP\n")
        o.w("  TRANSITION FROM s0 TO s1 := ")
        if tc == "-":
            o.w("TRUE")
        else:
            cond(o, p, tc, 0)
        o.w(";\n  END_TRANSITION\n  TRANSITION FROM s1 TO s0 := TRUE;\n  END_TRANSITION\n  ACTION act :\n")
        for si, s in enumerate(p["body"], start=1):
            statement(o, p, s, si, indent="    ")
        o.w("  END_ACTION\n")
    else:
        for si, s in enumerate(p["body"], start=1):
            statement(o, p, s, si)
    o.w(kw[1] + "\n")


def config_decl(o, c, resource="RES"):
    o.w("CONFIGURATION ").w(c["n"], ("config", c["n"])).w("\n")
    if c["globals"]:
        var_blocks(o, c["n"], c["globals"])
    o.w("  RESOURCE %s ON PLC\n" % resource)
    if c["rglobals"]:
        var_blocks(o, c["n"], c["rglobals"], indent="    ")
    for t in c["tasks"]:
        o.w("    TASK ").w(t, ("task", t)).w(" (INTERVAL := T#100ms, PRIORITY := 1);\n")
    for p in c["progs"]:
        o.w("    PROGRAM ").w(p["n"], ("proginst", p["n"]))
        if p["task"] != "-":
            o.w(" WITH ").w(p["task"], ("taskref", p["n"]))
        o.w(" : ").w(p["ty"], ("progtype", p["n"])).w(";\n")
    o.w("  END_RESOURCE\nEND_CONFIGURATION\n")


def decl_texts(unit):
    """one (name, text, sites) per top-level declaration, in the unit's order"""
    global USEQ
    USEQ = bool(unit.get("useq"))
    global USEQ_ALIAS, SFC, TCOND
    USEQ_ALIAS = bool(unit.get("useqalias"))
    SFC = set(unit.get("sfc", []))
    TCOND = dict(unit.get("tcond", {}))
    out = []
    for t in unit["types"]:
        o = Out()
        type_decl(o, t)
        out.append((t["n"], o.text(), o.sites))
    for p in unit["pous"]:
        o = Out()
        pou_decl(o, p)
        out.append((p["n"], o.text(), o.sites))
    if unit.get("config"):
        o = Out()
        config_decl(o, unit["config"])
        out.append((unit["config"]["n"], o.text(), o.sites))
    if unit.get("config2") and unit["config2"]["n"] != "-":
        o = Out()
        config_decl(o, unit["config2"], resource="RES2")
        out.append((unit["config2"]["n"], o.text(), o.sites))
    return out


def render(unit):
    """whole unit as one text; returns (text, sites)"""
    text = ""
    sites = {}
    for name, t, s in decl_texts(unit):
        off = len(text.encode("utf-8"))
        for k, spans in s.items():
            sites.setdefault(k, []).extend((a + off, b + off) for a, b in spans)
        text += t
    return text, sites
