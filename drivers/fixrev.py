#!/usr/bin/env python3
"""Developer tool: every `fix:` commit of /repo, reversed, is a realistic regression that compiles and passes the
baseline tests (the baseline had it).  For each entry of known_findings.json "fixed": apply the reverse patch to
/repo, run the quick check of the entry's property, undo, and record whether the check reported a VIOLATION.
usage: fixrev.py [commit ...]     results: seeded/fixrev/<commit>.json, summary seeded/fixrev/SUMMARY.json
Never run concurrently with other checks (it changes /repo's working tree)."""
import json
import os
import re
import subprocess
import sys
import time

V = os.path.dirname(os.path.dirname(os.path.abspath(__file__)))
OUT = os.path.join(V, "seeded", "fixrev")


def sh(*a, **kw):
    return subprocess.run(list(a), capture_output=True, text=True, **kw)


def main():
    os.makedirs(OUT, exist_ok=True)
    k = json.load(open(os.path.join(V, "known_findings.json")))
    entries = []
    for line in k["fixed"]:
        m = re.match(r"fixed: property=(C\d+) (\w+) (.*)", line)
        entries.append((m.group(1), m.group(2), m.group(3)))
    only = set(sys.argv[1:])
    if sh("git", "-C", "/repo", "status", "--porcelain", "--untracked-files=no").stdout.strip():
        print("repo not clean")
        return 2
    summary = {}
    sp = os.path.join(OUT, "SUMMARY.json")
    if os.path.exists(sp):
        summary = json.load(open(sp))
    for prop, commit, what in entries:
        if only and commit not in only:
            continue
        patch = sh("git", "-C", "/repo", "diff", commit, commit + "^").stdout
        pf = os.path.join(OUT, commit + ".reverse.diff")
        open(pf, "w").write(patch)
        chk = sh("git", "-C", "/repo", "apply", "--check", pf)
        rec = {"commit": commit, "property": prop, "what": what[:200]}
        if chk.returncode != 0:
            rec["result"] = "reverse patch does not apply (later commits touch the same lines)"
            os.remove(pf)
        else:
            sh("git", "-C", "/repo", "apply", pf)
            try:
                t0 = time.time()
                p = sh(sys.executable, os.path.join(V, "checks", prop.lower() + ".py"), "quick", cwd=V)
                sigs = sorted(set(l.strip()[len("signature:"):].strip() for l in p.stderr.splitlines() if l.strip().startswith("signature:")))
                rec.update({"exit": p.returncode, "violation_lines": sum(1 for l in p.stdout.splitlines() if l.startswith("VIOLATION")),
                            "signatures": sigs[:8], "wall_s": round(time.time() - t0, 1),
                            "result": "detected" if p.returncode == 1 else ("tool error" if p.returncode == 2 else "MISSED")})
                if p.returncode == 2:
                    rec["stderr_tail"] = p.stderr[-800:]
            finally:
                sh("git", "-C", "/repo", "checkout", "--", ".")
            os.remove(pf)
        summary[commit] = rec
        print(json.dumps(rec), flush=True)
        json.dump(summary, open(sp, "w"), indent=1)
    print("MISSED:", [c for c, r in summary.items() if r.get("result") == "MISSED"])
    return 0


if __name__ == "__main__":
    sys.exit(main())
