"""C05 part (c): identifier spans of parsed libraries and labels of diagnostics.

 (c1) every identifier token of a Grammar.tla derivation (spelled with random trivia) must be found in the parsed
      library as an Id with exactly that span, that spelling and the file id passed to the parser; every library
      Id that is not a synthesised elementary-type name must satisfy  source[span] == spelling.
 (c2) for every single-fault unit of Unit.tla the diagnostic carrying the rule's code must lie inside the file, on
      character boundaries, and cover one of LabelTargets(edit) - the spelling of the construct the rule talks
      about; every label of every diagnostic must lie inside the file it names.
 (c3) syntax errors of single-token mutants: the label is the span of exactly one lexeme of the text and does not
      end before the first changed token; lexical errors: the label contains the invalid character.
"""
import random
import re

import gram
import gramcheck
import lexcheck
import unitgen
import vlib

ELEMENTARY = {"bool", "sint", "int", "dint", "lint", "usint", "uint", "udint", "ulint", "real", "lreal", "time", "date",
              "time_of_day", "date_and_time", "string", "byte", "word", "dword", "lword", "wstring"}
FID = "dir with space/unit-é.st"


def c1(rep, cov, tier):
    cfgs = ["Stmt2", "Types3", "Fb2", "Sfc3", "Config3"] if tier == "quick" else ["Stmt3", "Types4", "Fb3", "Prog3", "Func3", "Sfc4", "Config4"]
    rng = random.Random(vlib.SEED)
    n_ids = 0
    n_cases = 0
    for ds in gramcheck.batches(cfgs, tier, cov):
        if tier == "quick":
            ds = ds[::3]
        cases, meta = [], []
        for d in ds:
            text, spans = gram.spell(d["toks"], rng, trivia=True, case=False)
            cases.append({"id": len(cases), "text": text, "fid": FID, "tree": False})
            meta.append((d, text, spans))
        cases2 = [dict(c, tree=True) for c in cases]
        res = vlib.harness("parse", cases2, per_case_timeout=30)
        for (d, text, spans), r in zip(meta, res):
            if not r.get("ok"):
                continue                          # C01's business
            tb = text.encode("utf-8")
            ids = r.get("ids", [])
            have = {}
            for orig, s, e, fid in ids:
                have.setdefault((s, e), []).append((orig, fid))
            labels = set(d["labs"])
            replay = {"text": text, "fid": FID}
            # every written identifier is present with its own span and the file id
            for (cat, spelled, glue), sp in zip(d["toks"], spans):
                if cat != "id" or sp is None:
                    continue
                n_ids += 1
                got = have.get(sp)
                if not got:
                    rep.add("identifier-span-missing", labels=labels, detail={"identifier": spelled, "expected_span": sp,
                            "library_ids": [i for i in ids if i[0].lower() == spelled.lower()]}, replay=replay)
                    break
                if not any(o == spelled for o, _ in got):
                    rep.add("identifier-spelling-differs-from-span", labels=labels, detail={"identifier": spelled, "found": got}, replay=replay)
                    break
                if not any(f == FID for _, f in got):
                    rep.add("identifier-file-id-wrong", labels=labels, detail={"identifier": spelled, "found": got}, replay=replay)
                    break
            else:
                # every library Id points at its own spelling
                for orig, s, e, fid in ids:
                    if orig == "" or orig.lower() in ELEMENTARY:
                        continue
                    if tb[s:e].decode("utf-8", "replace") != orig:
                        rep.add("library-id-span-does-not-cover-its-spelling", labels=labels,
                                detail={"id": orig, "span": [s, e], "source_slice": tb[s:e].decode("utf-8", "replace")}, replay=replay)
                        break
                    if fid != FID:
                        rep.add("library-id-file-id-wrong", labels=labels, detail={"id": orig, "file_id": fid}, replay=replay)
                        break

        n_cases += len(cases)
    cov["c1_sentences"] = n_cases
    cov["c1_identifier_tokens_checked"] = n_ids
    cov["traces_validated_against_impl"] += n_cases


def inside(label, tb):
    s, e = label["start"], label["end"]
    if not (0 <= s <= e <= len(tb)):
        return False
    try:
        tb[:s].decode("utf-8")
        tb[s:e].decode("utf-8")
    except UnicodeDecodeError:
        return False
    return True


def c2(rep, cov, tier):
    r = vlib.tlc_check("Unit.tla", "MC_Unit_1.cfg" if tier == "quick" else "MC_Unit_2gp.cfg", workers=8)
    cov["states"] += r["states"]
    cov["transitions"] += r["transitions"]
    recs = [x for x in r["replay"] if x.get("R") == "unit"]
    cases, meta = [], []
    for rec in recs:
        text, sites = unitgen.render(rec["unit"])
        cases.append({"id": len(cases), "files": [{"name": "unit.st", "text": text}]})
        meta.append((rec, text, sites))
        # the same unit with every enumeration value used as an initial value written with its type prefix
        # (grow:qualifyuse of Unit.tla, here applied to every behaviour so that it meets every plant)
        if not rec["unit"].get("useq"):
            text, sites = unitgen.render(dict(rec["unit"], useq=True))
            cases.append({"id": len(cases), "files": [{"name": "unit.st", "text": text}]})
            meta.append((rec, text, sites))
    res = vlib.harness("analyze", cases)
    n = 0
    for (rec, text, sites), rr in zip(meta, res):
        tb = text.encode("utf-8")
        diags = rr.get("analyze_diags", [])
        labels = set(e[0] for e in rec["edits"]) | set(":".join(str(x) for x in e) for e in rec["edits"])
        replay = {"text": text}
        for d in diags:
            for lab in [d["primary"]] + d["secondary"]:
                if lab["file"] == "unit.st" and not inside(lab, tb):
                    rep.add("label-outside-file-or-not-on-character-boundary:%s" % d["code"], labels=labels, detail={"label": lab}, replay=replay)
                elif lab["file"] not in ("unit.st", ""):
                    rep.add("label-names-unknown-file:%s" % d["code"], labels=labels, detail={"label": lab}, replay=replay)
        plants = [(i, e) for i, e in enumerate(rec["edits"]) if e[0].startswith("plant:")]
        if len(plants) != 1 or len(rec["violated"]) != 1:
            continue
        i, e = plants[0]
        want_codes = rec["codes"][rec["violated"][0]]
        targets = set(rec["targets"][i])
        hit = [d for d in diags if d["code"] in want_codes]
        if not hit:
            continue                      # C02's business
        n += 1
        call_texts = set()
        for k, spans in sites.items():
            if k[0] == "call":
                for a, b in spans:
                    call_texts.add(tb[a:b].decode("utf-8"))
        ok = False
        seen = []
        for d in hit:
            lab = d["primary"]
            t = tb[lab["start"]:lab["end"]].decode("utf-8", "replace") if lab["file"] == "unit.st" else None
            seen.append(t)
            if t is None:
                continue
            if t in targets or ("<call>" in targets and t in call_texts):
                ok = True
        # a label that says it marks the FIRST use / instance of a name must contain the first occurrence of that name in
        # the declaration (three spellings of one name: the later two are each a duplicate of the first)
        for d in hit:
            for lab in [d["primary"]] + d["secondary"]:
                if lab["file"] != "unit.st" or not re.search(r"(?i)\bfirst\b", lab.get("msg", "")):
                    continue
                name = tb[lab["start"]:lab["end"]].decode("utf-8", "replace").split("#")[-1].strip()
                b0 = tb.rfind(b"TYPE", 0, lab["start"])
                b1 = tb.find(b"END_TYPE", lab["start"])
                if not name or b0 < 0 or b1 < 0:
                    continue
                m = re.search(r"(?i)(?<![A-Za-z0-9_])%s(?![A-Za-z0-9_])" % re.escape(name), tb[b0 + 4:b1].decode("utf-8", "replace"))
                if m and not (lab["start"] <= b0 + 4 + m.start() < lab["end"]):
                    rep.add("label-says-first-but-is-not-the-first-occurrence:%s" % e[0].split(":")[1], labels=labels,
                            detail={"edit": e, "label": lab, "first_occurrence_at": b0 + 4 + m.start()}, replay=replay)
        if not ok:
            rep.add("label-does-not-cover-the-construct:%s" % e[0].split(":")[1], labels=labels,
                    detail={"edit": e, "allowed_lexemes": sorted(targets), "labelled_text": seen,
                            "codes": [d["code"] for d in hit]}, replay=replay)
    cov["c2_units"] = len(recs)
    cov["c2_fault_labels_checked"] = n
    cov["traces_validated_against_impl"] += len(recs)
    c2_lsp(rep, cov, recs)


def relayout(text, rng):
    """same tokens, new layout: line breaks, indentation, comments with 2- and 3-byte characters before lexemes"""
    toks = text.split()
    out = [toks[0]]
    for t in toks[1:]:
        out.append(rng.choice([" ", "\n", "\n   ", "\r\n", " (* \u00e9\u20ac *) ", "\n(* gr\u00f6\u00dfe *) ", "\t"]))
        out.append(t)
    return "".join(out) + "\n"


def c2_lsp(rep, cov, recs):
    """the editor's view (lsp_project.rs map_label): the range published for the planted fault must START at a
    lexeme of LabelTargets - line and character computed from the document text alone"""
    import lspdrv
    from concurrent.futures import ThreadPoolExecutor
    rng = random.Random(vlib.SEED + 52)
    docs = []
    for rec in recs:
        plants = [(i, e) for i, e in enumerate(rec["edits"]) if e[0].startswith("plant:")]
        if len(plants) != 1 or len(rec["violated"]) != 1:
            continue
        i, e = plants[0]
        text, _ = unitgen.render(rec["unit"])
        insts = set(st["inst"] for p in rec["unit"]["pous"] for st in p["body"] if st["k"] == "call")
        docs.append((rec, e, set(rec["targets"][i]), insts, relayout(text, rng)))
    docs = docs[:: max(1, len(docs) // 400)]
    bs = 12
    batches = [docs[k:k + bs] for k in range(0, len(docs), bs)]

    def run(b):
        msgs = []
        for k, d in enumerate(b):
            msgs.append(lspdrv.m_open(lspdrv.URI[1], d[4], k + 1) if k == 0 else lspdrv.m_change(lspdrv.URI[1], [d[4]], k + 1))
        msgs += [lspdrv.m_shutdown(9000), lspdrv.M_EXIT]
        res = lspdrv.run_server(msgs, timeout=120)
        pubs = {o["v"]: o["diags"] for o in lspdrv.observe(res["frames"]) if o["k"] == "pub"}
        return [pubs.get(k + 1) for k in range(len(b))]

    with ThreadPoolExecutor(max_workers=vlib.NCPU) as ex:
        outs = [x for b in ex.map(run, batches) for x in b]
    n = 0
    for (rec, e, targets, insts, text), diags in zip(docs, outs):
        if not diags:
            continue
        want_codes = rec["codes"][rec["violated"][0]]
        hit = [d for d in diags if d[0] in want_codes]
        if not hit:
            continue
        n += 1
        lines = text.split("\n")
        ok = False
        seen = []
        for code, line, ch, eline, ech in hit:
            rest = lines[line][ch:] if line < len(lines) and ch <= len(lines[line]) else None
            seen.append(None if rest is None else rest[:20])
            if rest is None:
                continue
            starts = set(t for t in targets if t != "<call>") | (insts if "<call>" in targets else set())
            if any(rest.startswith(t) and not (rest[len(t):len(t) + 1].isalnum() or rest[len(t):len(t) + 1] == "_") for t in starts):
                ok = True
            # ... and the range COVERS text: it ends after it starts, inside the document, and what it covers starts with the
            # lexeme it starts at (a range that ends where it starts covers nothing)
            if (eline, ech) <= (line, ch) or eline >= len(lines) or ech > len(lines[eline]):
                rep.add("lsp-range-is-empty-or-ends-outside-the-document:%s" % e[0].split(":")[1], labels={e[0], "lsp"},
                        detail={"edit": e, "range": [[line, ch], [eline, ech]]}, replay={"text": text})
                break
        if not ok:
            rep.add("lsp-range-does-not-start-at-the-construct:%s" % e[0].split(":")[1], labels={e[0], "lsp"},
                    detail={"edit": e, "allowed_lexemes": sorted(targets), "text_at_range_start": seen, "diagnostics": hit}, replay={"text": text})
    cov["c2_lsp_ranges_checked"] = n


def lexeme_spans(text):
    r = vlib.harness("lex", [{"id": 0, "text": text}])[0]
    return set((x["s"], x["e"]) for x in lexcheck.impl_lexemes(r))


def c3(rep, cov, tier):
    import c04 as c04mod  # mutation operators
    ds = gramcheck.derivations(["Stmt1", "Types2", "Fb1", "Sfc2", "Config2"], cov)
    rng = random.Random(vlib.SEED + 3)
    cases, meta = [], []
    # 'the prefix before the change is a prefix of a valid sentence' needs the unmutated sentence to be accepted
    okflags = [bool(r.get("ok")) for r in gramcheck.parse_cases([gram.spell(d["toks"])[0] for d in ds], tree=False)]
    ds = [d for d, k in zip(ds, okflags) if k]
    for d in ds:
        toks = d["toks"]
        for _ in range(2 if tier == "quick" else 6):
            i = rng.randrange(len(toks))
            kind = rng.choice(["delete", "duplicate", "replace"])
            mt, _ = c04mod.mutate(toks, rng, kind, i)
            text, spans = gram.spell(mt)
            # first position at which the mutant's token sequence differs from the original
            first = i if i < len(spans) else len(spans) - 1
            if spans and spans[first] is not None:
                cases.append({"id": len(cases), "text": text, "tree": False})
                meta.append((d, kind, text, spans, first))
    # white space where the grammar allows none (after the '#' of a typed literal, inside 'T#5s'): the syntax error is
    # then reported AT a white-space token
    for d in ds:
        text, spans = gram.spell(d["toks"])
        k = text.find("#")
        if k < 0:
            continue
        for ws in (" ", "\n", "\t", "\r\n"):
            t2 = text[:k + 1] + ws + text[k + 1:]
            first = max(0, sum(1 for sp in spans if sp is not None and sp[1] <= k + 1) - 1)
            sp2 = [None if sp is None else (sp if sp[1] <= k + 1 else (sp[0] + len(ws), sp[1] + len(ws))) for sp in spans]
            cases.append({"id": len(cases), "text": t2, "tree": False})
            meta.append((d, "split-after-hash", t2, sp2, first))
    res = vlib.harness("parse", cases)
    lex_inputs = [{"id": i, "text": c["text"]} for i, c in enumerate(cases)]
    lex = vlib.harness("lex", lex_inputs)
    n = 0
    for (d, kind, text, spans, first), r, lx in zip(meta, res, lex):
        if r.get("ok") or "diag" not in r:
            continue
        dg = r["diag"]
        if dg["code"] != "P0002":
            continue
        n += 1
        lab = dg["primary"]
        toks = set((x["s"], x["e"]) for x in lexcheck.impl_lexemes(lx)) if "toks" in lx else set()
        replay = {"text": text, "mutation": kind}
        labels = {"mutation:" + kind}
        # the message quotes the text the parser found: the label must cover exactly that text
        m = re.search(r"Found text '(.*)' that matched token", lab.get("msg", ""), re.S)
        quoted = None if not m else m.group(1).replace("\\n", "\n").replace("\\r", "\r")
        covered = text.encode("utf-8")[lab["start"]:lab["end"]].decode("utf-8", "replace")
        if quoted is not None and quoted != covered:
            rep.add("syntax-error-label-does-not-cover-the-text-the-message-quotes", labels=labels,
                    detail={"label": lab, "quoted": quoted, "covered": covered}, replay=replay)
        elif (lab["start"], lab["end"]) not in toks:
            rep.add("syntax-error-label-is-not-one-lexeme", labels=labels, detail={"label": lab}, replay=replay)
        elif lab["end"] < spans[first][0]:
            rep.add("syntax-error-label-before-the-change", labels=labels,
                    detail={"label": lab, "first_changed_token_starts_at": spans[first][0]}, replay=replay)
    # lexical errors: one invalid character injected
    base = [gram.spell(d["toks"])[0] for d in ds[:: max(1, len(ds) // 60)]]
    lcases, lmeta = [], []
    for t in base:
        tb = t.encode("utf-8")
        gaps = [m.start() for m in re.finditer(r" ", t)]
        if not gaps:
            continue
        g = rng.choice(gaps)
        bad = rng.choice(["?", "@", "~", "é", "€"])
        t2 = t[:g] + " " + bad + t[g:]
        pos = len(t[:g].encode("utf-8")) + 1
        lcases.append({"id": len(lcases), "text": t2, "tree": False})
        lmeta.append((t2, pos, bad))
    for (t2, pos, bad), r in zip(lmeta, vlib.harness("parse", lcases)):
        dg = r.get("diag")
        if r.get("ok") or not dg:
            rep.add("invalid-character-accepted", labels={"lexerr"}, detail={"char": bad}, replay={"text": t2})
            continue
        lab = dg["primary"]
        if dg["code"] != "P0031" or not (lab["start"] <= pos < lab["end"]):
            rep.add("lexical-error-label-misses-the-invalid-character", labels={"lexerr"},
                    detail={"label": lab, "code": dg["code"], "invalid_character_at": pos}, replay={"text": t2})
    cov["c3_syntax_error_labels_checked"] = n
    cov["c3_lexical_error_labels_checked"] = len(lcases)
    cov["traces_validated_against_impl"] += len(cases) + len(lcases)


def c4(rep, cov, tier):
    """recursion diagnostics (P0010 / P0013) of the graphs of Recursion.tla: the label names a declaration that is ON a cycle
    (the specification's on_cycle set) - not one that merely refers to the cycle or is referred to by it"""
    import graphreal
    cfgs = ["MC_Rec_3.cfg", "MC_Rec_rand8.cfg"] + ([] if tier == "quick" else ["MC_Rec_rand12.cfg"])
    graphs = []
    for c in cfgs:
        r = vlib.tlc_check("Recursion.tla", c, workers=4, name="c05_" + c[:-4])
        cov["states"] += r["states"]
        cov["transitions"] += r["transitions"]
        graphs += [g for g in r["replay"] if g.get("R") == "graph" and g["cyclic"] and len(g["on_cycle"]) < g["n"]]
    cases, meta = [], []
    for g in graphs:
        for kind, text in (("fb", graphreal.realise_fb(g)), ("struct", graphreal.realise_struct(g)), ("mixed", graphreal.realise_mixed(g, 1))):
            cases.append({"id": len(cases), "files": [{"name": "g.st", "text": text}]})
            meta.append((g, kind, text))
    res = vlib.harness("analyze", cases)
    n = 0
    for (g, kind, text), r in zip(meta, res):
        tb = text.encode("utf-8")
        on = set("n%d" % i for i in g["on_cycle"])
        for d in r.get("analyze_diags", []):
            if d["code"] not in ("P0010", "P0013"):
                continue
            lab = d["primary"]
            if lab["file"] != "g.st":
                continue
            n += 1
            t = tb[lab["start"]:lab["end"]].decode("utf-8", "replace").strip().lower()
            # the label may be the name of a declaration, or of a variable / element (e<j>, f<j>: of type N<j>); it is judged
            # by the declarations it names: at least one of them is on a cycle (a label that names none is not judged)
            named = set(int(x) for x in re.findall(r"(?<![a-z0-9_])[nef](\d+)(?![a-z0-9_])", t))
            if named and not (named & set(g["on_cycle"])):
                rep.add("recursion-label-names-a-declaration-that-is-not-on-a-cycle:%s" % kind, labels={"recursion", "real:" + kind},
                        detail={"edges": g["edges"], "on_cycle": g["on_cycle"], "labelled_text": t}, replay={"text": text})
    cov["c4_recursion_labels_checked"] = n
    cov["traces_validated_against_impl"] += n


def run(rep, cov, tier):
    import os
    import sys
    sys.path.insert(0, os.path.join(vlib.VERIF, "checks"))
    c1(rep, cov, tier)
    c2(rep, cov, tier)
    c3(rep, cov, tier)
    c4(rep, cov, tier)
    import clipos
    clipos.cross_command_positions(rep, cov)
