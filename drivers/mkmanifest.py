#!/usr/bin/env python3
"""Generates /verif/MANIFEST.json from the table below (single source of truth for the interface)."""
import json, os
V = os.path.dirname(os.path.dirname(os.path.abspath(__file__)))
NOTE_COMMON = ("Trusted base: TLC 1.8 and the TLA+ specifications in /verif/spec (transcribed from IEC 61131-3 Annex B and "
               "the documented rule texts, not from the code); the Python concretiser / projection in /verif/drivers; "
               "results hold within the stated bounds and on the validated traces only.")
CHECKS = {
 "C05": dict(tech="TLC model checking of Lexer.tla (Tiling, LineColDecl, Total) over all class strings; every behaviour replayed into tokenize_program; recorded token streams validated by LexerTrace.tla and compared with the table `ironplcc tokenize` prints; identifier spans and diagnostic labels of the Grammar.tla / Unit.tla corpora",
             text="Exhaustive within bounds: every character-class string up to length 4 (quick) / 5-6 (thorough) over four alphabets is lexed by the specification and by the implementation and compared lexeme by lexeme (span, kind, line, column); token streams of repository sources, their trivia / invalid-character / truncation mutants (incl. OSCAT headers with LF and CRLF), token soup and random bytes are validated as behaviours of the position machine by TLC. Identifier spans of every Grammar.tla derivation, byte labels and published LSP ranges of every single-fault unit of Unit.tla (re-laid-out with multi-byte comments) against LabelTargets, syntax / lexical error labels of token mutants, and the terminal's line:col of check / echo / tokenize on the faulty files.",
             ref="DESIGN.md 3.1, 5/C05"),
 "C11": dict(tech="TLC model checking of Lsp.tla (CacheCoherent, PublishExactlyOnce); all notification histories enumerated by TLC and replayed into fresh `ironplcc lsp --stdio` processes against a fresh-server diagnostics table; CLI equality per document state; random long histories validated by LspTrace.tla",
             text="Exhaustive within bounds: every didOpen/didChange history up to length 3 (quick) / 4 (thorough) over 2 URIs x 5 texts is executed on the real server and compared frame by frame with the publishes the specification requires (document, version, content = function of the current document state as measured on fresh servers); the same contents are checked with `ironplcc check`; random histories up to length 40 are validated as behaviours of the specification by TLC. Workspace start-up (Boot action: every content of the workspace folder x histories up to length 2) and the positions clause (every single-fault unit of Unit.tla in random layouts: server and check report the same code, line, column).",
             ref="DESIGN.md 3.6, 5/C11"),
 "C12": dict(tech="TLC model checking of Lsp.tla safety + liveness (EventuallyAnswered under WF; message kinds incl. didClose and requests / notifications whose params do not fit their method); all message sequences up to length 3 replayed into the real server; random interleavings up to length 60 validated by LspTrace.tla; TLC enumeration of TextSync.tla (documents over 1- to 4-byte characters x ranges in UTF-16 positions x inserted texts) replayed as didChange in the synchronisation kind the server advertises",
             text="Exhaustive within bounds over the message alphabet of the property (didOpen, didChange with 0/1/2 changes, semantic-token and unknown requests, unknown notifications, client responses, unopened and non-file URIs), each sequence closed by shutdown and exit: replies, their ids, their order and the exit status must be exactly the specification's reply queue.",
             ref="DESIGN.md 3.6, 5/C12"),
 "C15": dict(tech="TLC model checking of the semantic-token codec in Lexer.tla; every class-string document replayed through `ironplcc lsp --stdio` inside edit histories and decoded against the specification's highlighted lexemes and class table",
             text="Exhaustive within bounds at the lexical level: for every class string of the Lexer.tla configurations the server's response is decoded under the relative encoding and must be strictly increasing and equal (line, column, length, legend class) to the highlighted lexemes computed by the specification; invalid text must give a null result.",
             ref="DESIGN.md 3.1, 5/C15"),
 "C13": dict(tech="TLC model checking of Cli.tla (ExitOkDiagAgree, EchoTokenizeExit, DependsOnlyOnDenotation); every enumerated invocation run as a real ironplcc process and compared; relational comparison of invocations with equal denotation; random argument lists of 4-8 paths and random verbosity validated by CliTrace.tla (implementation -> specification); every invocation up to 2 arguments with -v / -vvvv (MC_Cli_v)",
             text="Exhaustive within bounds: every argument sequence up to length 3 (quick) / 4 (thorough) over 9 files of all classes (two with names that differ in letter case only), 7 directories (incl. empty, with unreadable entry) and a missing path, for check / echo / tokenize, is executed; exit status, OK line and the set of (code, file) must equal the observation computed by the specification; directory vs file list, argument order and repetition are compared run against run.",
             ref="DESIGN.md 3.7, 5/C13"),
 "C14": dict(tech="TLC model checking of Cli.tla ReadDecode/EncodingTransparent over all encoding assignments; each replayed on a disk written in those encodings; exhaustive byte sweep in four lexical contexts; random binary files; every workspace content x message history of Lsp.tla (MC_Lsp_encws) replayed into the language server with the workspace stored in each of the five encodings",
             text="Exhaustive within bounds: all 125 assignments of {UTF-8, UTF-8+BOM, UTF-16LE/BE+BOM, Windows-1252} to three files carrying non-ASCII text before a planted fault; verdict, codes and line:col must equal the specification's (encoding-free) observation and each other. Every byte value 0x00-0xFF in a comment, a string, between tokens and inside an identifier, plus random binary files: no crash, contract holds, positions inside the decoded text, neutral characters keep the verdict. Size clause: the same faulty program padded so that a run of 2-, 3- and 4-byte characters crosses byte offsets 512 ... 8192 (thorough: 256 ... 65536) at eight alignments in all five encodings.",
             ref="DESIGN.md 3.7, 5/C14",
             note="Encoders are Python codecs (trusted)."),
 "C01": dict(tech="TLC model checking of Grammar.tla (derivation machine over the Annex-B reference grammar: OneValue, NothingDropped, Terminates, PrecedenceShape); every derivation replayed into parse_program and the projected library compared with the abstract syntax computed by the specification; sweep configurations rotate the literal pools so that every literal form stands in every literal position (coverage obligation on the pools)",
             text="Exhaustive within bounds: every derivation of the reference grammar per area (expressions, statements, TYPE forms, VAR blocks x qualifiers x initialisers, FUNCTION / FUNCTION_BLOCK / PROGRAM, SFC, CONFIGURATION, libraries) within the fuel bound is enumerated by TLC together with the abstract syntax it denotes (precedence and associativity by construction of the stratified grammar); each is spelled canonically and with random layout, parsed, projected and compared node by node.",
             ref="DESIGN.md 3.2, 5/C01"),
 "C04": dict(tech="Grammar.tla corpus -> token-level mutants, token sequences, nesting shapes, extreme literals, the Unit.tla corpus and the deep / wide declaration graphs of Recursion.tla (each also with every declaration twice) (+ seeded soup / bytes) run through lex, parse, analyse, render under catch_unwind with a CPU-time budget, and through the ironplcc binary",
             text="The specification supplies the structured input space (derivations, their single-token mutants, token-class sequences, literal positions); the check runs every stage in-process under catch_unwind on an 8 MiB stack with a CPU-time budget and a sample through the real binary; a panic, abort, stack overflow or exceeded budget is a violation. Also: every literal of Literal.tla in three contexts, and long lexemes (40 - 5000 bytes, multi-byte characters at every alignment) alone, next to every token class and in place of every token of the small derivations.",
             ref="DESIGN.md 5/C04", note="'Arbitrary bytes' is a seeded random sample, not an enumeration."),
 "C08": dict(tech="relational replay of the Grammar.tla corpus: canonical vs re-spelled text (single-site keyword case, all-site random case and trivia, END_IF without semicolon) must project to the same library and the same analysis codes; the Unit.tla corpus with alphabet-covering identifiers and random case per occurrence must keep its verdict and codes",
             text="Every keyword / literal prefix / duration unit of the corpus is varied alone (lower, upper, mixed case); every derivation is re-spelled at all sites with random case per keyword and identifier occurrence and random trivia (blanks, tabs, LF, CRLF, FF, single- and multi-line, nested-looking, non-ASCII comments) at every inter-token position; END_IF is written without its semicolon.",
             ref="DESIGN.md 3.2, 5/C08"),
 "C10": dict(tech="replay of the Grammar.tla corpus: parse, render, re-parse, compare (PartialEq and projected abstract syntax), re-render (fixed point); sample through `ironplcc echo | ironplcc echo`",
             text="Every derivation accepted by the parser is round-tripped; constructs whose rendering is defective at the pinned commit are quarantined by production label in known_findings.json, every other derivation must round-trip exactly.",
             ref="DESIGN.md 3.2, 5/C10"),
 "C09": dict(tech="TLC model checking of Literal.tla (structured literal space with exact BigNat values, ValueTwoWays); every literal replayed into parse_program and the ConstantKind / AddressAssignment node compared with the specified value and expectation class",
             text="Exhaustive over the structured literal space: bases 2/8/10/16 x magnitudes 0 .. 2^128 x signs x type prefixes x underscore patterns; reals (mantissa / fraction / exponent forms, overflow); durations of every unit with boundary and fractional values and compound forms; dates / times of day / date-and-times with every field at min, max, max+1 incl. leap years; strings incl. $-escapes; direct addresses (prefix x size x 1-3 multi-digit components incl. > 2^32). Accepted literals must have exactly the specified value; ill-formed or unrepresentable ones must be rejected with a syntax diagnostic.",
             ref="DESIGN.md 3.3, 5/C09", note="Correct rounding of REAL to binary64 is evaluated with Python fractions from the exact rational the specification gives."),
 "C02": dict(tech="TLC model checking of Unit.tla (every documented rule as a predicate; BaseValid, GrowPreservesValid, PlantSound, SingleFaultIsSingle); every enumerated unit (base, growths, planted faults at every site) made concrete and analysed by stages::analyze / Project::semantic; verdict and problem codes compared with Violated(u) / Code(r); the symbol table operations of every analysis validated by ScopeTrace.tla against Scope.tla (implementation -> specification)",
             text="Exhaustive within bounds: the base unit, every validity-preserving growth and every planted fault (each rule's documented Fails shape at every applicable site: POU x variable class x statement role x control-structure wrapper ...), up to two edits; expectations are computed by evaluating the rule predicates on the resulting unit. Valid units must be accepted, single-fault units rejected with the rule's published code, multi-fault units rejected.",
             ref="DESIGN.md 3.4, 5/C02"),
 "C03": dict(tech="TLC model checking of Pipeline.tla (NoMasking, OrderIndependent, NothingLostBySort) per fault scenario over every arrangement of the declarations into files; the named deviations CollapseEqualNames / DropParseDiagsWhenAnalysisOk are shown to violate NoMasking; every arrangement and every file subset containing the fault analysed for real (analyze, Project::semantic twice, sampled `ironplcc check`)",
             text="Exhaustive within bounds: lexical / syntax / context-free rule fault in each of five declarations and duplicate names (incl. a duplicate hiding an undefined variable) x every permutation x partition into <= 3 files x file order; eight-declaration sets in up to four files sampled; every subset of the files containing the faulty file; sampled real CLI runs. The verdict must be failure in every case; duplicate type / function block names must be diagnosed.",
             ref="DESIGN.md 3.5, 5/C03"),
 "C06": dict(tech="TLC model checking of Pipeline.tla (OrderIndependent: verdict is a function of the set of declarations) over every permutation x partition x file order; each arrangement analysed with analyze() in exactly that library order, Project::semantic twice, and repeated fresh `ironplcc check` processes with permuted arguments",
             text="Exhaustive within bounds for sets of up to 5 declarations (valid sets, sets with a missing provider, single context-free faults): one verdict per set, and for single-fault sets one set of (code, declaration, labelled lexeme) across all arrangements; eight-declaration sets sampled; fresh processes give fresh hash seeds.",
             ref="DESIGN.md 3.5, 5/C06"),
 "C07": dict(tech="TLC enumeration of all digraphs (Recursion.tla; Cyclic via transitive closure cross-checked against the topological-numbering definition); each graph realised as function-block instance graph, structure graph, structure+alias graph, mixed function block / structure graph and enumeration-alias chain and analysed; deep / wide families (chain, ladder, fan, dense; 16 and 40 nodes) from the same module; recursion code reported <=> Cyclic(E)",
             text="Exhaustive for all digraphs on <= 3 nodes and all acyclic 4-node digraphs, 1/16 (quick) or all (thorough) of the cyclic 4-node digraphs, plus 440 random graphs on 8 and 12 nodes drawn by the same module; 3-4 realisations each.",
             ref="DESIGN.md 3.4, 5/C07"),
}
NA = {
}
def main():
    props = [json.loads(l)["id"] for l in open(os.path.join(V, "properties.jsonl"))]
    checks = []
    for pid in props:
        if pid not in CHECKS:
            continue
        c = CHECKS[pid]
        low = pid.lower()
        checks.append({
            "property_id": pid,
            "quick_cmd": "python3 checks/%s.py quick" % low,
            "thorough_cmd": "python3 checks/%s.py thorough" % low,
            "evidence_file": "evidence/%s.json" % pid,
            "replay_cmd_template": "python3 checks/replay.py {path}",
            "engine": "tlc+harness",
            "level_claimed": {"category": "model_checking", "text": c["text"], "design_ref": c["ref"]},
            "level_note": NOTE_COMMON + (" " + c["note"] if c.get("note") else ""),
            "technique": c["tech"],
        })
    na = [{"property_id": p, "reason": NA.get(p, "check not built yet in this round (planned, see DESIGN.md section 10); nothing is claimed for it")}
          for p in props if p not in CHECKS]
    m = {
        "version": 1,
        "setup_cmd": "python3 checks/setup.py",
        "hooks": {
            "guard": "ironplc_verif",
            "enable": "RUSTFLAGS='--cfg ironplc_verif' (set by /verif/harness/.cargo/config.toml and drivers/vlib.py build())",
            "baseline_off_cmd": "cd /repo/compiler && cargo test --workspace --no-fail-fast --offline",
            "source_commits": ["6db0167ffadc87bed3adf33419fbc2f349b81482", "fe2b4cca6ce84d95db1ae1f73b007300ac0cf8f4", "b211d1df9aefcd12b30d8860f7a7c71141d805e9"],
            "add_only": True,
        },
        "engines": [
            {"name": "tlc+harness", "path": "spec/ drivers/ harness/", "serves_properties": sorted(CHECKS),
             "kind_free_text": "explicit TLA+ specifications checked with TLC; behaviours replayed into the real code through a Rust in-process harness (vph) and black-box drivers for the ironplcc binary; recorded traces validated by *Trace.tla"},
        ],
        "checks": checks,
        "not_applicable": na,
        "notes": ("All properties are observed through public interfaces (parse_program, tokenize_program, stages::analyze, Project, write_to_string, the ironplcc binary over argv/stdio). "
                  "Three source hooks exist. Commit 6db0167: under --cfg ironplc_verif the Debug output of dsl::common::AddressAssignment also prints the address components, "
                  "which the harness needs to compare direct addresses (C09/C01); with the guard off the original impl is compiled unchanged. Commit fe2b4cc: analyzer/src/stages.rs records, under the same guard, the declarations each stage sees and the problem codes it produces (thread local list, drained by the harness) for trace validation by PipelineTrace.tla; with the guard off the original loops are compiled unchanged. Commit b211d1d: analyzer/src/symbol_table.rs records, under the same guard, every operation on a symbol table (enter, exit, add, try_add, find with key and result) into the same list, for trace validation by ScopeTrace.tla; add-only. "
                  "Repairs of genuine defects are the unguarded 'fix:' commits listed in known_findings.json (fixed); open defects are listed there under findings. "
                  "drivers/seeded.py + seeded/ hold the seeded changes used to test the checks (never applied to /repo outside a test run)."),
    }
    json.dump(m, open(os.path.join(V, "MANIFEST.json"), "w"), indent=1)
if __name__ == "__main__":
    main()
