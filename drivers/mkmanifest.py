#!/usr/bin/env python3
"""Generates /verif/MANIFEST.json from the table below (single source of truth for the interface)."""
import json, os
V = os.path.dirname(os.path.dirname(os.path.abspath(__file__)))
NOTE_COMMON = ("Trusted base: TLC 1.8 and the TLA+ specifications in /verif/spec (transcribed from IEC 61131-3 Annex B and "
               "the documented rule texts, not from the code); the Python concretiser / projection in /verif/drivers; "
               "results hold within the stated bounds and on the validated traces only.")
CHECKS = {
 "C05": dict(tech="TLC model checking of Lexer.tla (Tiling, LineColDecl, Total) over all class strings; every behaviour replayed into tokenize_program; recorded token streams validated by LexerTrace.tla",
             text="Exhaustive within bounds: every character-class string up to length 4 (quick) / 5-6 (thorough) over four alphabets is lexed by the specification and by the implementation and compared lexeme by lexeme (span, kind, line, column); token streams of repository sources, their trivia / invalid-character / truncation mutants, token soup and random bytes are validated as behaviours of the position machine by TLC.",
             ref="DESIGN.md 3.1, 5/C05"),
}
NA = {
}
def main():
    props = [json.loads(l)["id"] for l in open(os.path.join(V, "properties.jsonl"))]
    checks = []
    for pid in props:
        if pid not in CHECKS:
            continue
        c = CHECKS[pid]
        low = pid.lower()
        checks.append({
            "property_id": pid,
            "quick_cmd": "python3 checks/%s.py quick" % low,
            "thorough_cmd": "python3 checks/%s.py thorough" % low,
            "evidence_file": "evidence/%s.json" % pid,
            "replay_cmd_template": "python3 checks/replay.py {path}",
            "engine": "tlc+harness",
            "level_claimed": {"category": "model_checking", "text": c["text"], "design_ref": c["ref"]},
            "level_note": NOTE_COMMON + (" " + c["note"] if c.get("note") else ""),
            "technique": c["tech"],
        })
    na = [{"property_id": p, "reason": NA.get(p, "check not built yet in this round (planned, see DESIGN.md section 10); nothing is claimed for it")}
          for p in props if p not in CHECKS]
    m = {
        "version": 1,
        "setup_cmd": "python3 checks/setup.py",
        "hooks": {
            "guard": "ironplc_verif",
            "enable": "RUSTFLAGS='--cfg ironplc_verif' (set by /verif/harness/.cargo/config.toml and drivers/vlib.py build())",
            "baseline_off_cmd": "cd /repo/compiler && cargo test --workspace --no-fail-fast --offline",
            "source_commits": [],
            "add_only": True,
        },
        "engines": [
            {"name": "tlc+harness", "path": "spec/ drivers/ harness/", "serves_properties": sorted(CHECKS),
             "kind_free_text": "explicit TLA+ specifications checked with TLC; behaviours replayed into the real code through a Rust in-process harness (vph) and black-box drivers for the ironplcc binary; recorded traces validated by *Trace.tla"},
        ],
        "checks": checks,
        "not_applicable": na,
        "notes": "All properties are observed through public interfaces; no source hook is compiled into ironplc at present (guard reserved).",
    }
    json.dump(m, open(os.path.join(V, "MANIFEST.json"), "w"), indent=1)
if __name__ == "__main__":
    main()
