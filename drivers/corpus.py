"""Source-text corpus and text-level mutators shared by several checks (seeded, deterministic)."""
import glob
import os
import random

import vlib


def repo_sources():
    """All IEC source files shipped with the repository (tests, examples), decoded as the CLI would."""
    out = []
    pats = ["compiler/resources/test/*.st", "compiler/plc2x/resources/test/*.st",
            "compiler/plc2x/resources/test/set/*.st", "compiler/plc2plc/resources/test/*.st", "examples/*.st"]
    for p in pats:
        for f in sorted(glob.glob(os.path.join(vlib.REPO, p))):
            b = open(f, "rb").read()
            try:
                t = b.decode("utf-8")
            except UnicodeDecodeError:
                t = b.decode("cp1252", "replace")
            out.append((os.path.relpath(f, vlib.REPO), t))
    return out


COMMENTS = ["(* c *)", "(**)", "(***)", "(* a ** b **)", "(* é € \U0001F600 *)", "(* line1\n   line2 *)",
            "(* x\r\n y *)", "(* l1\n\n l3 *)", "(*@KEY@:DESCRIPTION*)", "(* a\r\n b\r\n\r\n d *)", "(* ( * ) *)", "(* (* nested-looking *)", "(*\t*)", "(* 'q' \"d\" *)"]
BLANKS = [" ", "  ", "\t", "\n", "\r\n", " \n ", "\n\n", "\f"]
OSCAT = "(*@KEY@:DESCRIPTION*)\nversion 1.0\tdate é\n(*@KEY@:END_DESCRIPTION*)"
INVALID = ["?", "@", "$", "é", "€", "\U0001F600", "\r", "~", "`", "\\", "!", "|", "^", "%"]


def gap_positions(text):
    """offsets at which trivia can be inserted without gluing lexemes: positions of existing blanks
    outside comments and strings (approximate scan, independent of the lexer under test)."""
    pos = []
    i, n = 0, len(text)
    while i < n:
        c = text[i]
        if text.startswith("(*", i):
            j = text.find("*)", i + 2)
            if j < 0:
                break
            i = j + 2
        elif text.startswith("//", i):
            j = text.find("\n", i)
            if j < 0:
                break
            i = j + 1
        elif c in "'\"":
            j = text.find(c, i + 1)
            if j < 0:
                break
            i = j + 1
        else:
            if c in " \t\n":
                pos.append(i)
            i += 1
    return pos


def mutate_trivia(text, rng, n=6, invalid=False):
    """insert comments / blanks / line-end variants (and optionally invalid characters) into gaps"""
    gaps = gap_positions(text)
    if not gaps:
        return text
    picks = sorted(rng.sample(gaps, min(n, len(gaps))), reverse=True)
    for p in picks:
        r = rng.random()
        if invalid and r < 0.3:
            ins = rng.choice(INVALID)
        elif r < 0.7:
            ins = rng.choice(COMMENTS)
        else:
            ins = rng.choice(BLANKS)
        text = text[:p] + " " + ins + " " + text[p:]
    if rng.random() < 0.3:
        text = text.replace("\n", "\r\n")
    return text


def soup(rng, n):
    """random text over a token-ish alphabet, incl. multi-byte and invalid characters"""
    parts = ["a", "B", "x1", "_", "1", "23", "1.5", "2.0e3", "16#FF", "2#1", "8#7", "'s'", "\"w\"", "'", "\"", "(*", "*)",
             "(* c *)", "//", " ", "  ", "\t", "\n", "\r\n", "\r", "\f", "(", ")", "[", "]", "{", "}", ",", ";", ":", ".", "..",
             "#", ":=", "=>", "<>", "<=", ">=", "<", ">", "=", "+", "-", "*", "**", "/", "&", "%IX1.2", "%Q*", "%", "?",
             "@", "$", "é", "€", "\U0001F600", "IF", "END_IF", "THEN", "VAR", "END_VAR", "PROGRAM", "T#1s", "D#2020-01-01",
             "MOD", "NOT", "AND", "OR", "TRUE", "INT", "STRING", "TYPE", "END_TYPE", "FUNCTION_BLOCK"]
    return "".join(rng.choice(parts) for _ in range(n))


def random_bytes_text(rng, n):
    b = bytes(rng.getrandbits(8) for _ in range(n))
    return b.decode("utf-8", "replace")
