#!/usr/bin/env python3
"""Developer tool: run the seeded changes under /verif/seeded/ against the checks named in their meta.json.

For each seeded/<id>/ : git -C /repo apply patch.diff; run the checks (quick unless MUT_TIER=thorough);
git -C /repo checkout -- . ; write seeded/<id>/detection.json  (which check reported VIOLATION, with which signatures).
usage: seeded.py [id ...]        (default: all)
Never run concurrently with the registered checks: it changes /repo's working tree for the duration of a run."""
import json
import os
import subprocess
import sys
import time

V = os.path.dirname(os.path.dirname(os.path.abspath(__file__)))
S = os.path.join(V, "seeded")


def run_one(sid, tier):
    d = os.path.join(S, sid)
    meta = json.load(open(os.path.join(d, "meta.json")))
    st = subprocess.run(["git", "-C", "/repo", "status", "--porcelain", "--untracked-files=no"], capture_output=True, text=True).stdout
    if st.strip():
        print("repo not clean", st)
        return None
    r = subprocess.run(["git", "-C", "/repo", "apply", os.path.join(d, "patch.diff")], capture_output=True, text=True)
    if r.returncode != 0:
        print(sid, "patch does not apply:", r.stderr)
        return None
    out = {"id": sid, "property": meta["property"], "tier": tier, "seed": os.environ.get("VERIF_SEED", ""), "checks": {}}
    try:
        for c in meta["checks"]:
            t0 = time.time()
            p = subprocess.run([sys.executable, os.path.join(V, "checks", c.lower() + ".py"), tier], cwd=V, capture_output=True, text=True)
            lines = [l for l in p.stdout.splitlines() if l.startswith("VIOLATION")]
            sigs = sorted(set(l.strip()[len("signature:"):].strip() for l in p.stderr.splitlines() if l.strip().startswith("signature:")))
            out["checks"][c] = {"exit": p.returncode, "violation_lines": len(lines), "signatures": sigs[:12], "wall_s": round(time.time() - t0, 1)}
            print(sid, c, json.dumps(out["checks"][c]), flush=True)
            if p.returncode == 2:
                print(p.stderr[-1500:])
    finally:
        subprocess.run(["git", "-C", "/repo", "checkout", "--", "."], check=True)
    out["detected_by"] = sorted(c for c, r in out["checks"].items() if r["exit"] == 1)
    out["detected_by_own_property_check"] = meta["property"] in out["detected_by"]
    json.dump(out, open(os.path.join(d, "detection.json"), "w"), indent=1)
    return out


def main():
    ids = sys.argv[1:] or sorted(x for x in os.listdir(S) if os.path.exists(os.path.join(S, x, "meta.json")))
    tier = os.environ.get("MUT_TIER", "quick")
    missed = []
    for sid in ids:
        o = run_one(sid, tier)
        if o is None:
            return 2
        if not o["detected_by_own_property_check"]:
            missed.append(sid)
    # the evidence files were rewritten from a modified tree: the caller re-runs the checks on the clean tree
    print("MISSED:", missed)
    return 0


if __name__ == "__main__":
    sys.exit(main())
