"""Black-box driver for the ironplcc command line: disk layouts of Cli.tla, runs, observation parsing."""
import os
import shutil
from concurrent.futures import ThreadPoolExecutor

import vlib

MISSING = "no_such_path.st"


def file_text(fid, cls, provider):
    n = fid.upper() if fid.islower() else fid.upper() + "X"      # w1.st and W1.st are two files with declarations of their own
    if cls == "V":
        return ("TYPE LEVEL_%s : (LOW_%s, HIGH_%s) := LOW_%s; END_TYPE\nFUNCTION_BLOCK FB_%s\nVAR a : INT; b : INT; END_VAR\n"
                "a := b + 1;\nEND_FUNCTION_BLOCK\n" % (n, n, n, n, n))
    if cls == "D":
        p = provider.upper()
        return "FUNCTION_BLOCK FB_%s\nVAR l : LEVEL_%s := HIGH_%s; END_VAR\nEND_FUNCTION_BLOCK\n" % (n, p, p)
    body = {"L": "a := b ? 1;", "Y": "a := := b 1;", "S": "a := c + 1;"}[cls]
    return "FUNCTION_BLOCK FB_%s\nVAR a : INT; b : INT; END_VAR\n%s\nEND_FUNCTION_BLOCK\n" % (n, body)


DISK = {  # mirrors spec/MC_Cli.tla
    "dirof": {"v1": "dA", "d1": "dA", "v2": "dB", "s1": "dB", "v3": "dD", "l1": "dE", "y1": "dF", "w1": "dG", "W1": "dG", "k1": "dH"},
    "classof": {"v1": "V", "d1": "D", "v2": "V", "s1": "S", "v3": "V", "l1": "L", "y1": "Y", "w1": "S", "W1": "V", "k1": "Y"},
    "provider": {"d1": "v1"},
    "dirs": ["dA", "dB", "dC", "dD", "dE", "dF", "dG", "dH"],
    "links": ["k1"],          # present in their directory as a symbolic link to a regular file outside the listed directories
    "baddirs": ["dD"],
}

BOMS = {"utf8": b"", "utf8bom": b"\xef\xbb\xbf", "utf16le": b"\xff\xfe", "utf16be": b"\xfe\xff", "cp1252": b""}


def encode(text, enc):
    if enc in ("utf8", "utf8bom"):
        return BOMS[enc] + text.encode("utf-8")
    if enc == "utf16le":
        return BOMS[enc] + text.encode("utf-16-le")
    if enc == "utf16be":
        return BOMS[enc] + text.encode("utf-16-be")
    if enc == "cp1252":
        return text.encode("cp1252")
    raise ValueError(enc)


def make_disk(root, disk=DISK, texts=None, enc=None):
    shutil.rmtree(root, ignore_errors=True)
    os.makedirs(root)
    for d in disk["dirs"]:
        os.makedirs(os.path.join(root, d))
    for d in disk["baddirs"]:
        os.makedirs(os.path.join(root, d, "sub"))
    for f, d in disk["dirof"].items():
        t = texts[f] if texts else file_text(f, disk["classof"][f], disk["provider"].get(f))
        if f in disk.get("links", []):
            os.makedirs(os.path.join(root, "_targets"), exist_ok=True)
            with open(os.path.join(root, "_targets", f + ".st"), "wb") as fh:   # (links keep the .st name)
                fh.write(encode(t, (enc or {}).get(f, "utf8")))
            os.symlink(os.path.join("..", "_targets", f + ".st"), os.path.join(root, d, f + ".st"))
            continue
        with open(os.path.join(root, d, f + disk.get("ext", {}).get(f, ".st")), "wb") as fh:
            fh.write(encode(t, (enc or {}).get(f, "utf8")))
    return root


def path_of(p, disk=DISK):
    if p == "?missing":
        return MISSING
    if p in disk["dirof"]:
        return os.path.join(disk["dirof"][p], p + disk.get("ext", {}).get(p, ".st"))
    return p


def entry_of(path, disk=DISK):
    """maps a path printed in a diagnostic back to the specification's name of the entry"""
    if path is None:
        return "-"
    b = os.path.basename(path.rstrip("/"))
    if b == MISSING:
        return "?missing"
    if b == "sub":
        return "?sub:" + os.path.basename(os.path.dirname(path.rstrip("/")))
    stem = os.path.splitext(b)[0]
    if stem in disk["dirof"] and b == stem + disk.get("ext", {}).get(stem, ".st"):
        return stem
    return "?path:" + b


def run(root, cmd, args, disk=DISK, timeout=60, verb=0):
    """verb: how often -v is given (Cli.tla: verb) - logging to a file, never part of the observation"""
    r = vlib.run_cli((["-" + "v" * verb] if verb else []) + [cmd] + [path_of(a, disk) for a in args], cwd=root, timeout=timeout)
    # the property speaks of "exits 0" / "exits non-zero": every ordinary non-zero status is the failure status 1 of Cli.tla;
    # a panic (101), an abort or a signal stays what it is
    rc = r["rc"]
    if rc is not None and 1 < rc < 101:
        rc = 1
    obs = {"rc": rc, "rc_raw": r["rc"], "timeout": r.get("timeout", False)}
    out_lines = r["stdout"].splitlines()
    if cmd == "check":
        obs["ok"] = r["stdout"].strip() == "OK"
        obs["ok_somewhere"] = "OK" in out_lines
    else:
        obs["ok"] = bool(out_lines) and out_lines[-1].strip() == "OK"
        obs["ok_somewhere"] = obs["ok"]
    ds = vlib.parse_cli_diags(r["stderr"], all_locations=True)
    obs["diags"] = sorted(set((c, entry_of(f, disk)) for c, f, _, _, _ in ds))
    obs["located"] = sorted((c, entry_of(f, disk), ln, col) for c, f, ln, col, _ in ds)
    obs["ndiag"] = len(ds)
    obs["stderr"] = r["stderr"][-1500:]
    obs["stdout_head"] = r["stdout"][:200]
    import hashlib
    obs["stdout_sha"] = hashlib.sha1(r["stdout"].encode("utf-8", "replace")).hexdigest()[:16]
    return obs


def run_many(root, invocations, disk=DISK):
    """invocations: (cmd, args) or (cmd, args, verb)"""
    with ThreadPoolExecutor(max_workers=vlib.NCPU) as ex:
        return list(ex.map(lambda ia: run(root, ia[0], ia[1], disk, verb=(ia[2] if len(ia) > 2 else 0)), invocations))
