#!/usr/bin/env python3
"""C03 - no error is masked: a defect anywhere in the compilation set makes check fail.

Pipeline.tla is model-checked per scenario (NoMasking, OrderIndependent, NothingLostBySort) over every
arrangement of the scenario's declarations into up to 3 files; its two named deviations (CollapseEqualNames,
DropParseDiagsWhenAnalysisOk) are checked to be caught by NoMasking.  Scenarios: a lexical error, a syntax
error or a context-free rule violation planted in each of five declarations; a second declaration with the
name of an existing one (incl. one that also hides an undefined variable); eight-declaration sets in up to four
files (sampled arrangements).  Every arrangement is analysed for real (analyze() in that order,
Project::semantic() twice, sampled `ironplcc check` runs); every subset of the files that contains the
faulty file is analysed as well (adding files never hides the fault).
"""
import itertools
import os
import sys

sys.path.insert(0, os.path.join(os.path.dirname(os.path.abspath(__file__)), "..", "drivers"))
import pipecheck  # noqa: E402
import pipescen  # noqa: E402
import vlib  # noqa: E402


def main():
    tier = sys.argv[1] if len(sys.argv) > 1 else vlib.TIER
    vlib.TIER = tier
    vlib.build()
    pipescen.write_specs()
    rep = vlib.Report("C03")
    cov = {"states": 0, "transitions": 0, "traces_validated_against_impl": 0, "samples": [], "tlc_runs": []}
    # the named deviations must be caught by the specification's own properties
    import re
    for dev, scen in (("CollapseEqualNames", "dup_Ux"), ("DropParseDiagsWhenAnalysisOk", "lex_M")):
        r = vlib.tlc("MC_Pipe_%s.tla" % scen, "DEV_Pipe_%s.cfg" % dev, workers=4, want_replay=False)
        if "NoMasking" not in re.findall(r"Invariant (\w+) is violated", r["out"]):
            raise vlib.ToolError("deviation %s is not caught by NoMasking" % dev)
        cov["states"] += r.get("states", 0)
    cov["deviations_caught_by_spec"] = ["CollapseEqualNames", "DropParseDiagsWhenAnalysisOk"]
    sc = pipescen.scenarios()
    names = [n for n in sc if n.split("_")[0] in ("lex", "syn", "rule", "dup", "dupk", "cross", "lex8", "rule8", "dup8")]
    if tier == "quick":
        names = [n for n in names if not n.endswith("8_E2") and not n.endswith("8_S")]
    wd = vlib.workdir("c03_cli")
    total = 0
    from concurrent.futures import ThreadPoolExecutor
    with ThreadPoolExecutor(max_workers=4) as ex:
        results = list(ex.map(lambda n: pipecheck.run_scenario(n, sc[n], tier, vlib.SEED, cov), names))
    for name, res in zip(names, results):
        decls = sc[name]
        if res["expected"] != "Err":
            raise vlib.ToolError("scenario %s is not a failing scenario" % name)
        kind = name.split("_")[0]
        labels = {"scenario:" + name, "fault:" + kind.rstrip("8")}
        for a, recno, rec in res.get("trace_rejected", []):
            what = "%s:%s" % (rec.get("ev"), rec.get("stage", rec.get("index", ""))) if rec else "?"
            rep.add("stage-trace-rejected:" + what, labels=labels | {"stage-trace"},
                    detail={"arrangement": a, "first_unmatched_record": rec, "record_number": recno},
                    replay={"scenario": name, "arrangement": a})
        for a, obs in res["runs"]:
            total += 1
            if "crash" in obs:
                rep.add("crash:%s" % obs["crash"][:50], labels=labels, detail={"arrangement": a}, replay={"scenario": name, "arrangement": a})
                continue
            for which in ("project", "project_again", "direct"):
                if obs[which] != "Err":
                    rep.add("masked:%s:%s" % (kind.rstrip("8"), which), labels=labels,
                            detail={"arrangement": a, "observed": {k: (sorted(v) if isinstance(v, set) else v) for k, v in obs.items()}},
                            replay={"scenario": name, "arrangement": a,
                                    "files": [(fn, t) for fn, t, _ in pipecheck.build_files(decls, a)]})
                    break
            else:
                if kind.startswith("dup") or kind == "cross":
                    codes = set(c for c, _, _ in obs["project_diags"])
                    if not codes & {"P0019", "P0020"}:
                        rep.add("duplicate-name-not-diagnosed", labels=labels | {"dupkind:" + name.split("_")[1]},
                                detail={"arrangement": a, "codes": sorted(codes)},
                                replay={"scenario": name, "arrangement": a, "files": [(fn, t) for fn, t, _ in pipecheck.build_files(decls, a)]})
        # monotonicity: every subset of the files that contains the faulty declaration's file still fails
        fault_ids = [i + 1 for i, (k, f) in enumerate(decls) if f != "none"]
        multi = [a for a, _ in res["runs"] if len(a) >= 2][:: (7 if tier == "quick" else 2)]
        cases, meta = [], []
        for a in multi:
            fidx = [i for i, f in enumerate(a) if any(d in f for d in fault_ids)]
            if kind.startswith("dup") or kind == "cross":
                continue          # a duplicate name is a property of the pair: a subset holding one of the two is valid
            for r_ in range(1, len(a)):
                for sub in itertools.combinations(range(len(a)), r_):
                    if not all(i in sub for i in fidx):
                        continue
                    files = pipecheck.build_files(decls, [a[i] for i in sub])
                    cases.append({"id": len(cases), "files": [{"name": fn, "text": t} for fn, t, _ in files], "project": True})
                    meta.append((a, sub))
        for (a, sub), rr in zip(meta, vlib.harness("analyze", cases)):
            total += 1
            pr = rr.get("project") or {}
            if "panic" in rr:
                rep.add("crash:%s" % str(rr["panic"])[:50], labels=labels, detail={"arrangement": a, "subset": sub})
            elif pr.get("ok"):
                rep.add("masked-in-subset:%s" % kind.rstrip("8"), labels=labels,
                        detail={"arrangement": a, "subset_of_files": list(sub)}, replay={"scenario": name, "arrangement": a, "subset": list(sub)})
        # the real binary on a sample
        sample = [a for a, _ in res["runs"]][:: max(1, len(res["runs"]) // (6 if tier == "quick" else 60))]
        for a, outs in pipecheck.cli_runs(name, decls, sample, 3, wd):
            for rc, ok, codes in outs:
                total += 1
                if rc == 0 or ok:
                    rep.add("cli-masked:%s" % kind.rstrip("8"), labels=labels | {"cli"}, detail={"arrangement": a, "rc": rc, "ok": ok, "codes": codes},
                            replay={"scenario": name, "arrangement": a})
                    break
                if rc not in (0, 1):
                    rep.add("cli-crash:rc=%s" % rc, labels=labels | {"cli"}, detail={"arrangement": a})
                    break
    cov["scenarios"] = names
    cov["analyses"] = total
    cov["traces_validated_against_impl"] = total
    s0 = pipescen.scenarios()["dup_Ux"]
    cov["samples"].append({"scenario": "dup_Ux", "arrangement": [[1, 5], [2, 3], [4]],
                           "files": [(fn, t[:300]) for fn, t, _ in pipecheck.build_files(s0, [[1, 5], [2, 3], [4]])]})
    cov["exhaustive"] = tier != "quick"
    cov["rule"] = ("fault kind (lexical, syntax, context-free rule, duplicate name) x faulty declaration x every permutation / partition into <= 3 files / "
                   "file order of 5 declarations (quick: all single-file permutations + 1/4 of the multi-file arrangements); 8-declaration sets sampled")
    return rep.finish("model_checking", cov, assumptions=["a 'context-free' fault is realised by one documented Fails shape per declaration kind (drivers/pipescen.py)"])


if __name__ == "__main__":
    vlib.main_wrapper(main)
