#!/usr/bin/env python3
"""Re-executes the case stored in a replay file (replays/<property>/<hash>.json, written next to a VIOLATION line)
against the CURRENT /repo tree and prints what the real code does with it, next to what the check recorded.

usage: python3 checks/replay.py <path>

The replay file holds  property, signature, labels, detail (expected vs observed as recorded), replay (the input:
a source text, a set of files / an arrangement of a Pipeline.tla scenario, an LSP message history, or a command
line).  This tool is informational (exit 0 unless the file cannot be read or the tools fail: 2); the verdict on a
property is always the check's own exit status."""
import json
import os
import sys
import tempfile

sys.path.insert(0, os.path.join(os.path.dirname(os.path.dirname(os.path.abspath(__file__))), "drivers"))
import vlib  # noqa: E402


def show(title, obj):
    print("---- " + title)
    print(json.dumps(obj, indent=1, default=str)[:6000])


def parse_texts(texts):
    cases = [{"id": i, "text": t, "render": True, "analyze": True, "tree": False} for i, t in enumerate(texts)]
    for t, r in zip(texts, vlib.harness("parse", cases, per_case_timeout=60)):
        print("---- source text")
        print(t)
        r.pop("tree", None)
        show("parse / analyze / render on the current tree", r)


def main():
    if len(sys.argv) != 2:
        print(__doc__)
        return 2
    rec = json.load(open(sys.argv[1]))
    rp = rec.get("replay") or {}
    print("property %s   signature %s" % (rec.get("property"), rec.get("signature")))
    show("recorded detail", rec.get("detail"))
    texts = [rp[k] for k in ("text", "source", "canonical", "respelled") if isinstance(rp.get(k), str)]
    if "file_hex" in rp:
        with tempfile.TemporaryDirectory(prefix="vreplay") as d:
            p = os.path.join(d, "input.st")
            open(p, "wb").write(bytes.fromhex(rp["file_hex"]))
            for cmd in ("check", "tokenize", "echo"):
                r = vlib.run_cli([cmd, p], cwd=d)
                show("ironplcc %s input.st" % cmd, {"rc": r["rc"], "stdout": r["stdout"][:500], "stderr": r["stderr"][-1500:]})
    elif texts:
        parse_texts(texts)
        lx = vlib.harness("lex", [{"id": 0, "text": texts[0]}])[0]
        show("tokens", lx if len(json.dumps(lx)) < 6000 else {"n_tokens": len(lx.get("toks", [])), "err": lx.get("err")})
    elif "scenario" in rp:
        import pipecheck
        import pipescen
        decls = pipescen.scenarios()[rp["scenario"]]
        arr = rp["arrangement"]
        if rp.get("subset"):
            arr = [f for i, f in enumerate(arr) if i in set(rp["subset"]) or (i + 1) in set(rp["subset"])] or arr
        files = pipecheck.build_files(decls, arr)
        for fn, t, _ in files:
            print("---- %s\n%s" % (fn, t))
        r = vlib.harness("analyze", [{"id": 0, "files": [{"name": fn, "text": t} for fn, t, _ in files], "project": True}])[0]
        show("analyze() + Project::semantic() on the current tree", r)
    elif "history" in rp:
        import lspdrv
        texts_ = {int(k): v for k, v in rp["texts"].items()}
        msgs = lspdrv.concretize(rp["history"], texts_)
        res = lspdrv.run_server(msgs)
        show("messages sent after initialize", msgs)
        show("server frames / exit status", {"rc": res["rc"], "timeout": res["timeout"], "observed": lspdrv.observe(res["frames"]),
                                             "stderr": res["stderr"][-800:]})
    elif "cmd" in rp and ("args" in rp or "args_a" in rp):
        import clidrv
        with tempfile.TemporaryDirectory(prefix="vreplay") as d:
            root = os.path.join(d, "disk")
            for key in ("args", "args_a", "args_b"):
                if key not in rp:
                    continue
                encs = [rp.get(k) for k in ("enc", "enc_a", "enc_b") if rp.get(k)] or [None]
                for enc in encs:
                    clidrv.make_disk(root, enc=enc if isinstance(enc, dict) else None)
                    args = [a for a in rp[key]]
                    r = vlib.run_cli([rp["cmd"]] + args, cwd=root)
                    show("ironplcc %s %s  (encodings %s)" % (rp["cmd"], " ".join(args), enc),
                         {"rc": r["rc"], "stdout": r["stdout"][:500], "stderr": r["stderr"][-2500:]})
    else:
        show("replay payload (no automatic re-execution for this shape; see the check named by 'property')", rp)
    return 0


if __name__ == "__main__":
    vlib.main_wrapper(main)
