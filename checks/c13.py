#!/usr/bin/env python3
"""C13 - command-line contract: exit status, OK line and diagnostics always agree.

 1. Cli.tla is model-checked (ExitOkDiagAgree, EchoTokenizeExit, DependsOnlyOnDenotation) over every
    argument sequence up to the bound over a disk with valid / lexical / syntax / semantic / dependent
    files, an empty directory, a directory with an unreadable entry and a missing path.
 2. spec -> impl: every (command, argument sequence) TLC enumerated is run as a real process; exit status,
    OK line and the set of (code, file) must equal the specification's observation.
 4. impl -> spec: random argument lists of 4 - 8 paths (beyond the exhaustive bound) are run and validated by TLC against
    Cli.tla (CliTrace.tla).
 3. relational, independent of the class expectations: invocations with the same command and the same
    denotation (directory vs list of its files, permuted / repeated arguments) must agree on
    (exit, OK, located diagnostics); check's own contract is evaluated on every run.
"""
import os
import sys

sys.path.insert(0, os.path.join(os.path.dirname(os.path.abspath(__file__)), "..", "drivers"))
import clidrv  # noqa: E402
import vlib  # noqa: E402


def contract(cmd, o):
    """the part of C13 that needs no oracle at all"""
    if o["timeout"]:
        return "hang"
    if o["rc"] not in (0, 1):
        return "crash:rc=%s" % o["rc"]         # (clidrv.run maps every ordinary non-zero status to 1: what is left is a panic / signal)
    if cmd == "check":
        if (o["rc"] == 0) != o["ok"]:
            return "exit-vs-OK"
        if o["ok"] and o["ndiag"] > 0:
            return "OK-with-diagnostic"
        if o["rc"] != 0 and o["ndiag"] == 0:
            return "failure-without-coded-diagnostic"
        if o["rc"] != 0 and o["ok_somewhere"]:
            return "failure-prints-OK"
    return None


def many_diagnostics(rep, cov):
    """the contract for sets with MANY problems (255, 256, 257, 512, 1000 files with one syntax error each, and one file with
    that many invalid characters): still a non-zero exit status, no OK, coded diagnostics - however the status is computed"""
    import shutil
    wd = vlib.workdir("c13_many")
    jobs = []
    for n in (255, 256, 257, 512, 1000):
        d = os.path.join(wd, "d%d" % n)
        shutil.rmtree(d, ignore_errors=True)
        os.makedirs(d)
        with open(os.path.join(d, "main.st"), "w") as f:
            f.write(clidrv.file_text("v1", "V", None))
        for i in range(n):
            with open(os.path.join(d, "u%04d.st" % i), "w") as f:
                f.write("FUNCTION_BLOCK U%04d\nVAR x : INT; END_VAR\nx := ;\nEND_FUNCTION_BLOCK\n" % i)
        jobs.append(("check", n, [d]))
        jobs.append(("echo", n, [d]))
        p = os.path.join(wd, "junk%d.st" % n)
        with open(p, "w") as f:
            f.write("FUNCTION_BLOCK J\nVAR x : INT; END_VAR\n" + "@ " * n + "\nEND_FUNCTION_BLOCK\n")
        jobs.append(("tokenize", n, [p]))
        jobs.append(("check", n, [p]))
    for cmd, n, args in jobs:
        r = vlib.run_cli([cmd] + args, timeout=300)
        ndiag = len(vlib.parse_cli_diags(r["stderr"]))
        ok_line = "OK" in r["stdout"].splitlines()[-1:] if cmd != "echo" else False
        sig = None
        if r.get("timeout"):
            sig = "hang"
        elif r["rc"] == 0:
            sig = "exit-status-0-with-%s-problems" % ("256k" if n % 256 == 0 else "many")
        elif r["rc"] in (101, 134, 139) or r["rc"] < 0:
            sig = "crash:rc=%s" % r["rc"]
        elif ok_line:
            sig = "failure-prints-OK"
        elif ndiag == 0:
            sig = "failure-without-coded-diagnostic"
        if sig:
            rep.add("many-diagnostics:%s:%s" % (cmd, sig), labels={cmd, "many-diagnostics"}, detail={"problems_in_the_set": n, "rc": r["rc"], "coded_diagnostics": ndiag},
                    replay={"cmd": cmd, "files": "%d files 'FUNCTION_BLOCK Uk VAR x : INT; END_VAR x := ; END_FUNCTION_BLOCK' / one file with %d '@'" % (n, n)})
    for n in (255, 256, 257, 512, 1000):
        shutil.rmtree(os.path.join(wd, "d%d" % n), ignore_errors=True)
    cov["many_diagnostics_runs"] = len(jobs)
    cov["traces_validated_against_impl"] += len(jobs)


def verbose_invocations(rep, cov, root, expect_of):
    """Cli.tla's `verb` (how often -v is given) is not an argument of the observation: every invocation of MC_Cli_v.cfg
    (up to 2 arguments, -v and -vvvv) must behave as the specification says - which is how it behaves without -v."""
    r = vlib.tlc_check("MC_Cli.tla", "MC_Cli_v.cfg", workers=4, name="MC_Cli_v")
    cov["states"] += r["states"]
    cov["transitions"] += r["transitions"]
    cov["tlc_runs"].append({"cfg": "MC_Cli_v.cfg", "states": r["states"], "behaviours": len(r["replay"])})
    exp = {}
    for b in r["replay"]:
        if b.get("R") == "cli":
            exp.setdefault((b["cmd"], tuple(b["args"]), b["verb"]), []).append((b["exit"], b["ok"], sorted(tuple(d) for d in b["diags"])))
    keys = sorted(exp)
    obs = clidrv.run_many(root, keys)
    for key, o in zip(keys, obs):
        cmd, args, verb = key
        got = (o["rc"], o["ok"], [tuple(d) for d in o["diags"]])
        if cmd == "tokenize":
            okb = any(got[0] == e[0] and got[1] == e[1] for e in exp[key])
        elif cmd == "echo":
            okb = any(got[0] == e[0] for e in exp[key])
        else:
            okb = got in [(e[0], e[1], [tuple(d) for d in e[2]]) for e in exp[key]]
        sig = contract(cmd, o)
        if sig or not okb:
            rep.add("verbosity:%s:%s" % (cmd, sig or "differs-from-specification"), labels={cmd, "verbose"},
                    detail={"args": list(args), "verbosity": verb, "expected_one_of": exp[key], "observed": o},
                    replay={"cmd": cmd, "args": ["-" + "v" * verb] + [clidrv.path_of(a) for a in args], "disk": "drivers/clidrv.py make_disk"})
    cov["verbose_invocations"] = len(keys)
    cov["traces_validated_against_impl"] += len(keys)


def long_invocations(rep, cov, root, tier):
    """implementation -> specification: random argument lists LONGER than the exhaustive bound (4 - 8 arguments, repeated
    and overlapping paths, every command) are run and the recorded runs validated by TLC against Cli.tla (CliTrace.tla)"""
    import json
    import random
    rng = random.Random(vlib.SEED + 13)
    paths = sorted(clidrv.DISK["dirof"]) + list(clidrv.DISK["dirs"]) + ["?missing"]
    n = 400 if tier == "quick" else 8000
    invs = []
    for _ in range(n):
        k = rng.randrange(4, 9)
        pool = [p for p in paths if p != "?missing" and p != "dD"] if rng.random() < 0.8 else paths
        invs.append((rng.choice(["check", "check", "echo", "tokenize"]), tuple(rng.choice(pool) for _ in range(k)), rng.choice([0, 0, 1, 2, 3, 4])))
    obs = clidrv.run_many(root, invs)
    wd = vlib.workdir("c13_trace")
    nchunks = 4
    paths_out = []
    lines = [[] for _ in range(nchunks)]
    for tid, ((cmd, args, verb), o) in enumerate(zip(invs, obs)):
        c = lines[tid % nchunks]
        c.append({"ev": "run", "tid": tid, "cmd": cmd, "args": list(args), "verb": verb})
        c.append({"ev": "obs", "rc": o["rc"] if o["rc"] is not None else -9, "ok": bool(o["ok"]), "diags": [list(d) for d in o["diags"]]})
    for k, ls in enumerate(lines):
        p = os.path.join(wd, "c%d.ndjson" % k)
        with open(p, "w") as fh:
            for e in ls:
                fh.write(json.dumps(e) + "\n")
        paths_out.append(p)
    from concurrent.futures import ThreadPoolExecutor
    with ThreadPoolExecutor(max_workers=nchunks) as ex:
        vals = list(ex.map(lambda p: vlib.tlc_trace("CliTrace.tla", "CliTrace.cfg", p), paths_out))
    nbad = 0
    for v in vals:
        cov["states"] += v["states"]
        cov["transitions"] += v["transitions"]
        for tid, recno in v["bad"]:
            nbad += 1
            cmd, args, verb = invs[tid]
            rep.add("trace-rejected:%s" % cmd, labels={cmd, "long-invocation"},
                    detail={"args": list(args), "verbosity": verb, "observed": obs[tid]},
                    replay={"cmd": cmd, "args": [clidrv.path_of(a) for a in args], "disk": "drivers/clidrv.py make_disk"})
    cov["long_invocations_validated_by_CliTrace"] = n
    cov["long_invocations_rejected"] = nbad
    cov["traces_validated_against_impl"] += n


def main():
    tier = sys.argv[1] if len(sys.argv) > 1 else vlib.TIER
    vlib.TIER = tier
    vlib.build()
    rep = vlib.Report("C13")
    cov = {"states": 0, "transitions": 0, "traces_validated_against_impl": 0, "samples": [], "tlc_runs": []}
    cfg = "MC_Cli_3.cfg" if tier == "quick" else "MC_Cli_4.cfg"
    r = vlib.tlc_check("MC_Cli.tla", cfg, workers=8, coverage=(tier == "quick"))
    cov["states"] += r["states"]
    cov["transitions"] += r["transitions"]
    cov["tlc_runs"].append({"cfg": cfg, "states": r["states"], "behaviours": len(r["replay"]), "wall_s": round(r["wall_s"], 1)})
    if r["coverage"]:
        for act in ("Enumerate", "ReadDecode", "Run"):
            if r["coverage"].get(act, 0) == 0:
                raise vlib.ToolError("action %s never taken" % act)
    expect = {}
    den = {}
    for b in r["replay"]:
        key = (b["cmd"], tuple(b["args"]))
        expect.setdefault(key, []).append((b["exit"], b["ok"], sorted(tuple(d) for d in b["diags"])))
        den[key] = frozenset(b["den"])
    root = clidrv.make_disk(os.path.join(vlib.workdir("c13"), "disk"))
    keys = sorted(expect)
    obs = clidrv.run_many(root, keys)
    groups = {}
    for key, o in zip(keys, obs):
        cmd, args = key
        labels = {cmd} | set("arg:" + ("dir" if a.startswith("d") and len(a) == 2 else a.rstrip("0123456789") if a != "?missing" else "missing") for a in args)
        sig = contract(cmd, o)
        if sig:
            rep.add("contract:%s:%s" % (cmd, sig), labels=labels, detail={"args": list(args), "observed": o},
                    replay={"cmd": cmd, "args": [clidrv.path_of(a) for a in args], "disk": "drivers/clidrv.py make_disk"})
        got = (o["rc"], o["ok"], [tuple(d) for d in o["diags"]])
        if cmd == "tokenize":
            okb = any(got[0] == e[0] and got[1] == e[1] for e in expect[key])
        elif cmd == "echo":
            okb = any(got[0] == e[0] for e in expect[key])
        else:
            okb = got in [(e[0], e[1], [tuple(d) for d in e[2]]) for e in expect[key]]
        if not okb:
            what = "exit" if got[0] != expect[key][0][0] else ("ok-line" if got[1] != expect[key][0][1] else "diagnostics")
            rep.add("spec-vs-impl:%s:%s" % (cmd, what), labels=labels,
                    detail={"args": list(args), "expected_one_of": expect[key], "observed": o},
                    replay={"cmd": cmd, "args": [clidrv.path_of(a) for a in args]})
        groups.setdefault((cmd, den[key]), []).append((args, o))
    ngroups = 0
    for (cmd, d), members in groups.items():
        if len(members) < 2:
            continue
        ngroups += 1
        ref_args, ref = members[0]
        for args, o in members[1:]:
            # which of several semantically faulty files is named is not specified (the rule stops at its first hit)
            one_sem = sum(1 for f in d if clidrv.DISK["classof"].get(f) == "S") <= 1
            same = (o["rc"] == ref["rc"] and o["ok"] == ref["ok"] and
                    (cmd == "tokenize" or (sorted(set(map(tuple, o["located"]))) == sorted(set(map(tuple, ref["located"]))) if one_sem
                                           else sorted(set(x[0] for x in o["located"])) == sorted(set(x[0] for x in ref["located"])))))
            if not same:
                rep.add("same-denotation-different-result:%s" % cmd, labels={cmd, "relational"},
                        detail={"a": {"args": list(ref_args), "obs": ref}, "b": {"args": list(args), "obs": o}},
                        replay={"cmd": cmd, "args_a": list(ref_args), "args_b": list(args)})
                break
    # one problem, one place: whichever command reports a lexical / syntax problem of a file reports it at the same
    # line:column (C05: a label covers the text it is about, also on the terminal)
    by_args = {}
    for key, o in zip(keys, obs):
        by_args.setdefault(key[1], {})[key[0]] = o
    ncross = 0
    for args, per in by_args.items():
        if "check" not in per:
            continue
        ref = set(tuple(x) for x in per["check"]["located"] if x[0] in ("P0002", "P0031"))
        for cmd in ("echo", "tokenize"):
            if cmd not in per:
                continue
            ncross += 1
            got = set(tuple(x) for x in per[cmd]["located"] if x[0] in ("P0002", "P0031") and (cmd == "echo" or x[0] == "P0031"))
            want = ref if cmd == "echo" else set(x for x in ref if x[0] == "P0031")
            bad = (got != want) if cmd == "echo" else not (got <= want)
            if bad:
                rep.add("same-problem-different-place:%s-vs-check" % cmd, labels={cmd, "relational"},
                        detail={"args": list(args), "check": sorted(ref), cmd: sorted(got)},
                        replay={"cmd": cmd, "args": [clidrv.path_of(a) for a in args]})
    cov["cross_command_position_comparisons"] = ncross
    many_diagnostics(rep, cov)
    verbose_invocations(rep, cov, root, expect_of=lambda k: expect.get(k))
    long_invocations(rep, cov, root, tier)
    cov["invocations"] = len(keys)
    cov["traces_validated_against_impl"] = len(keys)
    cov["denotation_groups_compared"] = ngroups
    cov["samples"].append({"cmd": keys[len(keys) // 2][0], "args": list(keys[len(keys) // 2][1]), "expected": expect[keys[len(keys) // 2]]})
    cov["exhaustive"] = True
    cov["rule"] = "every argument sequence up to length %d over 9 files (two with names that differ in letter case only), 7 directories and a missing path x {check, echo, tokenize}" % (3 if tier == "quick" else 4)
    return rep.finish("model_checking", cov, assumptions=[
        "an unreadable file is realised as a sub-directory entry (the sandbox runs as root, permission bits do not bite)",
        "coded diagnostic = a line 'error[Pnnnn]' on stderr after stripping ANSI colour"])


if __name__ == "__main__":
    vlib.main_wrapper(main)
