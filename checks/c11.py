#!/usr/bin/env python3
"""C11 - LSP diagnostics depend only on the current document contents and equal `check`.

 1. Lsp.tla is model-checked (CacheCoherent, PublishExactlyOnce, ...) and TLC enumerates every notification
    history up to the bound over 2 URIs x 5 texts; with each history it emits the publishes the server must
    send: (document, version, document state the content may depend on).
 2. Diag(state, u) is instantiated from freshly started servers (u opened last), measured twice.
 3. Every history is piped to a fresh `ironplcc lsp --stdio`; the traffic must equal the expectation frame by frame.
 4. `ironplcc check <dir>` on files with the same contents must report the same (code, line, column) per file.
 5. Long random histories are recorded and validated by LspTrace.tla (implementation -> specification).
"""
import os
import random
import sys

sys.path.insert(0, os.path.join(os.path.dirname(os.path.abspath(__file__)), "..", "drivers"))
import doctexts  # noqa: E402
import lspcheck  # noqa: E402
import lsptrace  # noqa: E402
import vlib  # noqa: E402


def main():
    tier = sys.argv[1] if len(sys.argv) > 1 else vlib.TIER
    vlib.TIER = tier
    vlib.build()
    rep = vlib.Report("C11")
    cov = {"states": 0, "transitions": 0, "traces_validated_against_impl": 0, "samples": [], "tlc_runs": []}
    texts = doctexts.TEXTS
    # the named deviations of Lsp.tla (a memo that survives an edit; the first instead of the last content change)
    # must be told apart from the design by the specification's own invariants
    vlib.deviation_caught("Lsp.tla", "DEV_Lsp_StaleMemo.cfg", "CacheCoherent", cov)
    vlib.deviation_caught("Lsp.tla", "DEV_Lsp_FirstChangeWins.cfg", "DocsFollowProtocol", cov)
    cfg = "MC_Lsp_C11_3.cfg" if tier == "quick" else "MC_Lsp_C11_4.cfg"
    r = vlib.tlc_check("Lsp.tla", cfg, workers=vlib.NCPU, timeout=3600)
    cov["states"] += r["states"]
    cov["transitions"] += r["transitions"]
    cov["tlc_runs"].append({"cfg": cfg, "states": r["states"], "behaviours": len(r["replay"]), "wall_s": round(r["wall_s"], 1)})
    replays = r["replay"]
    if len(replays) < 1000:
        raise vlib.ToolError("TLC emitted only %d histories" % len(replays))
    tables = lspcheck.Tables(texts)
    dk, tk = lspcheck.needed_keys(replays)
    tables.fill(dk, tk)
    for u in tables.unstable:
        rep.add("fresh-server-diagnostics-not-deterministic", labels={"table"}, detail=u)
    results = lspcheck.run_replays(replays, texts)
    for rp, res in zip(replays, results):
        sig = lspcheck.compare(rp, res, tables)
        if sig:
            rep.add("history:" + sig, labels=lspcheck.labels_of(rp),
                    detail={"history": rp["hist"], "expected": rp["out"], "observed": lspdrv_obs(res), "rc": res["rc"],
                            "stderr": res["stderr"][-500:]},
                    replay={"history": rp["hist"], "texts": {str(k): v for k, v in texts.items()},
                            "cmd": "python3 checks/replay.py <this file>"})
    cov["histories_replayed"] = len(replays)
    cov["document_states_in_table"] = len(tables.diag)
    cov["samples"].append({"history": replays[len(replays) // 3]["hist"], "expected": replays[len(replays) // 3]["out"]})
    # 4. CLI clause
    states = sorted(set(k[0] for k in tables.diag if any(k[0])))
    ncli = 0
    for st in states:
        rc, per, unloc, raw = lspcheck.cli_diags_for_state(st, texts)
        ncli += 1
        for u, cd in per.items():
            want = tables.diag.get((st, u))
            if want is None:
                continue
            lsp = sorted((d[0], d[1], d[2]) for d in want)
            if lsp != cd:
                rep.add("cli-differs-from-lsp:%s" % doctexts.NAMES[st[u - 1]], labels={"cli"},
                        detail={"state": [doctexts.NAMES[t] for t in st], "u": u, "lsp": lsp, "cli": cd, "cli_unlocated": unloc,
                                "stderr": raw["stderr"][-1500:]},
                        replay={"state": list(st)})
    cov["cli_states_compared"] = ncli
    # 5. long random histories, validated by LspTrace.tla
    n_long = 40 if tier == "quick" else 1500
    lsptrace.random_histories(rep, cov, tables, texts, n_long, maxlen=40, seed=vlib.SEED, kinds=("open", "change1"),
                              prop="C11")
    cov["exhaustive"] = True
    cov["rule"] = ("every didOpen/didChange history up to length %d over 2 URIs x 5 texts (valid, lexical, syntax, semantic error, "
                   "depends-on-other), each in a fresh server process; + %d random histories of length <= 40" % (3 if tier == "quick" else 4, n_long))
    return rep.finish("model_checking", cov, assumptions=[
        "Diag(state,u) is measured on freshly started servers (twice); absolute correctness of diagnostics is C02/C03/C05",
        "diagnostics compared as sorted lists of (code, start line, start character)"])


def lspdrv_obs(res):
    import lspdrv
    return lspdrv.observe(res["frames"])


if __name__ == "__main__":
    vlib.main_wrapper(main)
