#!/usr/bin/env python3
"""C11 - LSP diagnostics depend only on the current document contents and equal `check`.

 1. Lsp.tla is model-checked (CacheCoherent, PublishExactlyOnce, ...) and TLC enumerates every notification
    history up to the bound over 2 URIs x 5 texts; with each history it emits the publishes the server must
    send: (document, version, document state the content may depend on).
 2. Diag(state, u) is instantiated from freshly started servers (u opened last), measured twice.
 3. Every history is piped to a fresh `ironplcc lsp --stdio`; the traffic must equal the expectation frame by frame.
 4. `ironplcc check <dir>` on files with the same contents must report the same (code, line, column) per file.
 5. Long random histories are recorded and validated by LspTrace.tla (implementation -> specification).
"""
import os
import random
import sys

sys.path.insert(0, os.path.join(os.path.dirname(os.path.abspath(__file__)), "..", "drivers"))
import doctexts  # noqa: E402
import lspcheck  # noqa: E402
import lsptrace  # noqa: E402
import vlib  # noqa: E402


def main():
    tier = sys.argv[1] if len(sys.argv) > 1 else vlib.TIER
    vlib.TIER = tier
    vlib.build()
    rep = vlib.Report("C11")
    cov = {"states": 0, "transitions": 0, "traces_validated_against_impl": 0, "samples": [], "tlc_runs": []}
    texts = doctexts.TEXTS
    # the named deviations of Lsp.tla (a memo that survives an edit; the first instead of the last content change)
    # must be told apart from the design by the specification's own invariants
    vlib.deviation_caught("Lsp.tla", "DEV_Lsp_StaleMemo.cfg", "CacheCoherent", cov)
    vlib.deviation_caught("Lsp.tla", "DEV_Lsp_FirstChangeWins.cfg", "DocsFollowProtocol", cov)
    cfg = "MC_Lsp_C11_3.cfg" if tier == "quick" else "MC_Lsp_C11_4.cfg"
    r = vlib.tlc_check("Lsp.tla", cfg, workers=vlib.NCPU, timeout=3600)
    cov["states"] += r["states"]
    cov["transitions"] += r["transitions"]
    cov["tlc_runs"].append({"cfg": cfg, "states": r["states"], "behaviours": len(r["replay"]), "wall_s": round(r["wall_s"], 1)})
    replays = r["replay"]
    if len(replays) < 1000:
        raise vlib.ToolError("TLC emitted only %d histories" % len(replays))
    tables = lspcheck.Tables(texts)
    dk, tk = lspcheck.needed_keys(replays)
    tables.fill(dk, tk)
    for u in tables.unstable:
        rep.add("fresh-server-diagnostics-not-deterministic", labels={"table"}, detail=u)
    results = lspcheck.run_replays(replays, texts)
    for rp, res in zip(replays, results):
        sig = lspcheck.compare(rp, res, tables)
        if sig:
            rep.add("history:" + sig, labels=lspcheck.labels_of(rp),
                    detail={"history": rp["hist"], "expected": rp["out"], "observed": lspdrv_obs(res), "rc": res["rc"],
                            "stderr": res["stderr"][-500:]},
                    replay={"history": rp["hist"], "texts": {str(k): v for k, v in texts.items()},
                            "cmd": "python3 checks/replay.py <this file>"})
    cov["histories_replayed"] = len(replays)
    cov["document_states_in_table"] = len(tables.diag)
    cov["samples"].append({"history": replays[len(replays) // 3]["hist"], "expected": replays[len(replays) // 3]["out"]})
    # 4. CLI clause
    states = sorted(set(k[0] for k in tables.diag if any(k[0])))
    ncli = 0
    for st in states:
        rc, per, unloc, raw = lspcheck.cli_diags_for_state(st, texts)
        ncli += 1
        for u, cd in per.items():
            want = tables.diag.get((st, u))
            if want is None:
                continue
            lsp = sorted((d[0], d[1], d[2]) for d in want)
            if lsp != cd:
                rep.add("cli-differs-from-lsp:%s" % doctexts.NAMES[st[u - 1]], labels={"cli"},
                        detail={"state": [doctexts.NAMES[t] for t in st], "u": u, "lsp": lsp, "cli": cd, "cli_unlocated": unloc,
                                "stderr": raw["stderr"][-1500:]},
                        replay={"state": list(st)})
    cov["cli_states_compared"] = ncli
    # 5. long random histories, validated by LspTrace.tla
    n_long = 40 if tier == "quick" else 1500
    lsptrace.random_histories(rep, cov, tables, texts, n_long, maxlen=40, seed=vlib.SEED, kinds=("open", "change1"),
                              prop="C11")
    # 7. workspace folder: a server started on a directory that already holds documents behaves as if they had been opened
    workspace_clause(rep, cov, tier)
    # 8. near-identical texts: three documents that are equal when letter case is ignored but are not the same program
    #    (a hexadecimal literal is only lexed with upper-case digits; the OSCAT markers are matched with their exact case)
    near_identical_clause(rep, cov, tier)
    # 6. positions: every single-fault unit of Unit.tla, laid out anew at random (so that faulty lexemes start in column
    #    0, after CRLF, after several blanks ...), through the server and through `check`: same (code, line, column)
    positions_clause(rep, cov, tier)
    cov["exhaustive"] = True
    cov["rule"] = ("every didOpen/didChange history up to length %d over 2 URIs x 5 texts (valid, lexical, syntax, semantic error, "
                   "depends-on-other), each in a fresh server process; + %d random histories of length <= 40" % (3 if tier == "quick" else 4, n_long))
    return rep.finish("model_checking", cov, assumptions=[
        "Diag(state,u) is measured on freshly started servers (twice); absolute correctness of diagnostics is C02/C03/C05",
        "diagnostics compared as sorted lists of (code, start line, start character)"])


def near_identical_clause(rep, cov, tier):
    """every history up to length 4 over one document and three texts that differ in letter case only, yet have different
    diagnostics: whatever the server keys its memo on must be the text itself"""
    import lspdrv
    body = "FUNCTION_BLOCK FB_H\nVAR a : INT; b : INT; END_VAR\na := b + 16#FF;\nEND_FUNCTION_BLOCK\n"
    texts = {1: body, 2: body.replace("16#FF", "16#ff"), 3: body.replace("FB_H", "fb_h")}
    r = vlib.tlc_check("Lsp.tla", "MC_Lsp_case.cfg", workers=4)
    cov["states"] += r["states"]
    cov["transitions"] += r["transitions"]
    cov["tlc_runs"].append({"cfg": "MC_Lsp_case.cfg", "states": r["states"], "behaviours": len(r["replay"])})
    replays = r["replay"]
    tables = lspcheck.Tables(texts, nuri=1)
    dk, tk = lspcheck.needed_keys(replays)
    tables.fill(dk, tk)
    if tables.diag.get(((1,), 1)) == tables.diag.get(((2,), 1)):
        raise vlib.ToolError("the two case variants have the same diagnostics: the clause is vacuous")
    results = lspcheck.run_replays(replays, texts)
    for rp, res in zip(replays, results):
        sig = lspcheck.compare(rp, res, tables)
        if sig:
            rep.add("near-identical:" + sig, labels={"near-identical"} | lspcheck.labels_of(rp),
                    detail={"history": rp["hist"], "expected": rp["out"], "observed": lspdrv.observe(res["frames"]), "rc": res["rc"]},
                    replay={"history": rp["hist"], "texts": {str(k): v for k, v in texts.items()}})
    cov["near_identical_histories"] = len(replays)


def workspace_clause(rep, cov, tier):
    """Lsp.tla with "ws" in Kinds: the initial document state is the content of the workspace folder (every
    assignment of {absent, valid, semantic-error, depends-on-other} to two files); every history up to length 2 on top
    of it.  Expectation = the specification's publishes over the fresh-server table (documents opened by notification)."""
    import lspdrv
    from concurrent.futures import ThreadPoolExecutor
    texts = {1: doctexts.T_VALID, 2: doctexts.T_SEM, 3: doctexts.T_DEP}
    r = vlib.tlc_check("Lsp.tla", "MC_Lsp_ws.cfg", workers=4)
    cov["states"] += r["states"]
    cov["transitions"] += r["transitions"]
    cov["tlc_runs"].append({"cfg": "MC_Lsp_ws.cfg", "states": r["states"], "behaviours": len(r["replay"])})
    replays = r["replay"]
    tables = lspcheck.Tables(texts)
    dk, tk = lspcheck.needed_keys(replays)
    tables.fill(dk, tk)
    wd = vlib.workdir("c11_ws")

    def run(item):
        i, rp = item
        d = os.path.join(wd, "w%d" % i)
        os.makedirs(d, exist_ok=True)
        for u, t in enumerate(rp["hist"][0]["d"], start=1):
            if t != 0:
                with open(os.path.join(d, lspdrv.fname(u)), "w") as f:
                    f.write(texts[t])
        # files the project must ignore
        with open(os.path.join(d, "notes.txt"), "w") as f:
            f.write("a := := ;")
        return lspdrv.run_server(lspdrv.concretize(rp["hist"], texts), workspace=d)

    with ThreadPoolExecutor(max_workers=vlib.NCPU) as ex:
        results = list(ex.map(run, enumerate(replays)))
    for rp, res in zip(replays, results):
        sig = lspcheck.compare(rp, res, tables)
        if sig:
            rep.add("workspace:" + sig, labels={"workspace"} | lspcheck.labels_of(rp),
                    detail={"disk": [doctexts.NAMES.get({1: 1, 2: 4, 3: 5}.get(t, 0)) for t in rp["hist"][0]["d"]], "history": rp["hist"], "expected": rp["out"],
                            "observed": lspdrv.observe(res["frames"]), "rc": res["rc"], "stderr": res["stderr"][-400:]},
                    replay={"history": rp["hist"], "texts": {str(k): v for k, v in texts.items()}, "disk": rp["hist"][0]["d"]})
    cov["workspace_histories"] = len(replays)


def relayout(text, rng):
    """the same token sequence in a new layout: line breaks (LF / CRLF), indentation and comments - also comments with
    characters of two and three UTF-8 bytes BEFORE a lexeme on its line, so that byte, character and UTF-16 offsets of
    a label differ (BMP characters only: the column unit of the terminal and of the editor then agree)"""
    toks = text.split()
    out = [toks[0]]
    for t in toks[1:]:
        out.append(rng.choice([" ", " ", "\n", "\n", "\n   ", "\r\n", "  \n", "\n\n", " (* \u00e9\u20ac *) ", "\n(* gr\u00f6\u00dfe *) ", " (* c *)\n"]))
        out.append(t)
    return "".join(out) + "\n"


def positions_clause(rep, cov, tier):
    import tempfile
    import shutil
    from concurrent.futures import ThreadPoolExecutor
    import lspdrv
    import unitgen
    r = vlib.tlc_check("Unit.tla", "MC_Unit_1.cfg", workers=4, name="c11_MC_Unit_1")
    cov["states"] += r["states"]
    cov["transitions"] += r["transitions"]
    rng = random.Random(vlib.SEED + 11)
    docs = []
    for rec in r["replay"]:
        if rec.get("R") != "unit":
            continue
        text, _ = unitgen.render(rec["unit"])
        # at least two layouts of every unit, one after the other in the same session: an edit that changes the layout only
        # (white space, comments) moves every position although the declarations stay what they were
        for _ in range(2 if tier == "quick" else 4):
            docs.append((rec["edits"], relayout(text, rng)))
    bs = 12
    batches = [docs[i:i + bs] for i in range(0, len(docs), bs)]
    # large documents (within the 64 KiB of C04): long sums, deep parentheses and IF nests, thousands of statements and
    # variables, a long non-ASCII comment - the editor and the command line are the same compiler on the same text,
    # whatever its size; one server per document
    large = large_documents()
    docs += large
    batches += [[d] for d in large]

    def lsp_batch(b):
        msgs = []
        for i, (_, t) in enumerate(b):
            msgs.append(lspdrv.m_open(lspdrv.URI[2], t, i + 1) if i == 0 else lspdrv.m_change(lspdrv.URI[2], [t], i + 1))
        msgs += [lspdrv.m_shutdown(9000), lspdrv.M_EXIT]
        res = lspdrv.run_server(msgs, timeout=120)
        pubs = {o["v"]: o["diags"] for o in lspdrv.observe(res["frames"]) if o["k"] == "pub"}
        return [pubs.get(i + 1) for i in range(len(b))]

    def cli_one(doc):
        d = tempfile.mkdtemp(prefix="vp_c11p_", dir=vlib.WORK)
        try:
            p = os.path.join(d, lspdrv.fname(2))
            with open(p, "w", newline="") as f:
                f.write(doc[1])
            rr = vlib.run_cli(["check", p])
            return sorted((c, ln - 1, col - 1) for c, f, ln, col in vlib.parse_cli_diags(rr["stderr"]) if f is not None)
        finally:
            shutil.rmtree(d, ignore_errors=True)

    with ThreadPoolExecutor(max_workers=vlib.NCPU) as ex:
        lsp = [x for b in ex.map(lsp_batch, batches) for x in b]
        cli = list(ex.map(cli_one, docs))
    n = 0
    for (edits, text), a, b in zip(docs, lsp, cli):
        if a is None:
            rep.add("positions:no-publish", labels={"positions"}, detail={"edits": edits}, replay={"text": text})
            continue
        n += 1
        got = sorted((d[0], d[1], d[2]) for d in a)
        if got != b:
            kind = "codes" if sorted(x[0] for x in got) != sorted(x[0] for x in b) else ("line" if [x[:2] for x in got] != [x[:2] for x in b] else "column")
            rep.add("positions:lsp-differs-from-check:%s" % kind, labels={"positions"}, detail={"edits": edits, "lsp": got, "check": b},
                    replay={"text": text})
    cov["position_documents_compared"] = n


def large_documents():
    head = "PROGRAM main\nVAR total : INT; flag : BOOL; END_VAR\n"
    tail = "missing := total;\nEND_PROGRAM\n"
    out = []
    for n in (50, 100, 200, 300, 400):
        out.append((["large:sum", n], head + "total := " + " + ".join(["1"] * n) + ";\n" + tail))
    for n in (12, 40, 80, 120, 200):
        out.append((["large:parentheses", n], head + "total := " + "(" * n + "1" + ")" * n + ";\n" + tail))
    for n in (12, 30, 60, 100):
        out.append((["large:if", n], head + "IF flag THEN\n" * n + "total := 1;\n" + "END_IF;\n" * n + tail))
    for n in (500, 2000):
        out.append((["large:statements", n], head + "total := total + 1;\n" * n + tail))
    for n in (200, 1000):
        out.append((["large:variables", n], "PROGRAM main\nVAR total : INT; " + " ".join("v%d : INT;" % i for i in range(n)) + " END_VAR\n" + tail))
    out.append((["large:comment", 30000], head + "(* " + "\u00e9\u20ac " * 10000 + "*)\n" + tail))
    # many problems in one document (a rule that reports every occurrence: CONSTANT without initial value): all of them
    # are published, as all of them are printed
    for n in (30, 150, 600):
        out.append((["large:diagnostics", n], "PROGRAM main\nVAR CONSTANT\n" + "".join("  k%d : INT;\n" % i for i in range(n)) + "END_VAR\nEND_PROGRAM\n"))
    return out


def lspdrv_obs(res):
    import lspdrv
    return lspdrv.observe(res["frames"])


if __name__ == "__main__":
    vlib.main_wrapper(main)
