#!/usr/bin/env python3
"""C09 - literals are read as the value IEC 61131-3 assigns them, or rejected.

Literal.tla builds the structured literal space (bases x magnitudes up to 2^128 x signs x type prefixes x
underscore patterns; reals; durations with every unit, boundary and fractional values, compound forms; dates,
times of day and date-and-times with every field at min / max / max+1; strings incl. $-escapes; direct
addresses) and computes the exact value of each literal with BigNat arithmetic.  TLC checks ValueTwoWays and
emits (spelling, value, expectation).  Each literal is placed in  VAR x : T := <lit>; END_VAR  (addresses:
VAR x AT <lit> : BOOL), parsed, and the ConstantKind / AddressAssignment node is compared with the value.
"""
import os
import sys
from concurrent.futures import ThreadPoolExecutor
from fractions import Fraction

sys.path.insert(0, os.path.join(os.path.dirname(os.path.abspath(__file__)), "..", "drivers"))
import gram  # noqa: E402
import gram_decl  # noqa: E402
import vlib  # noqa: E402

GROUPS = ["int", "real", "dur", "time", "text"]
TYPE_OF = {"int": "INT", "bits": "WORD", "real": "REAL", "dur": "TIME", "date": "DATE", "tod": "TOD", "dt": "DT", "str": "STRING", "bool": "BOOL"}
CHAR = {"SP": " ", "NBSP": "\u00a0", "LF": "\n", "FF": "\f", "CR": "\r", "TAB": "\t"}
F64_MAX = Fraction(2 ** 1024 - 2 ** 971)


def digits(ds):
    return "".join(str(d) for d in ds).lstrip("0") or "0"


def place(rec):
    text = "".join(rec["text"])
    if rec["kind"] == "addr":
        return "PROGRAM p VAR x AT %s : BOOL; END_VAR END_PROGRAM" % text
    if rec["kind"] == "ill":
        return "PROGRAM p VAR x : %s := %s; END_VAR END_PROGRAM" % (TYPE_OF[rec["value"]["as"]], text)
    if rec["kind"] == "str" and rec["value"]["wide"]:
        return "PROGRAM p VAR x : WSTRING := %s; END_VAR END_PROGRAM" % text
    return "PROGRAM p VAR x : %s := %s; END_VAR END_PROGRAM" % (TYPE_OF[rec["kind"]], text)


def observed(tree):
    """the constant / address node of the single variable, in the normal form of gram.py (case kept)"""
    prog = tree["elements"][0]["0"]
    v = prog["variables"][0]
    d = gram_decl.p_vardecl(v)
    if d[0] == "LocVar":
        return d[2]
    spec = d[4]
    if spec[0] == "TRef":
        return spec[2]
    if spec[0] == "StrSpec":
        return spec[3]
    return spec


def nearest_f64_ok(exact, got):
    """is `got` a correctly rounded binary64 of the exact rational (ties: either neighbour accepted)?"""
    if got != got or got in (float("inf"), float("-inf")):
        return False
    g = Fraction(got)
    if g == exact:
        return True
    import math
    lo = Fraction(math.nextafter(got, -math.inf))
    hi = Fraction(math.nextafter(got, math.inf))
    return abs(exact - g) <= abs(exact - lo) and abs(exact - g) <= abs(exact - hi)


def compare(rec, obs):
    """None if the observed node denotes exactly the specified value, else a short reason"""
    k = rec["kind"]
    v = rec["value"]
    if k == "int":
        if obs[0] != "Int":
            return "node-kind:%s" % obs[0]
        want = ("-" if v["neg"] else "") + digits(v["digits"])
        if obs[2] != want:
            return "value"
        if (v["type"] or "-") != obs[1]:
            return "type-prefix"
        return None
    if k == "bits":
        if obs[0] not in ("Bits",):
            return "node-kind:%s" % obs[0]
        if obs[2] != digits(v["digits"]):
            return "value"
        if obs[1] != v["type"]:
            return "type-prefix"
        return None
    if k == "real":
        if obs[0] != "Real":
            return "node-kind:%s" % obs[0]
        exact = Fraction(int(digits(v["mant"]))) * (Fraction(10) ** v["exp10"])
        if v["neg"]:
            exact = -exact
        if not nearest_f64_ok(exact, float(obs[2])):
            return "value-not-correctly-rounded"
        if (v["type"] or "-") != obs[1]:
            return "type-prefix"
        return None
    if k == "dur":
        if obs[0] != "Dur":
            return "node-kind:%s" % obs[0]
        want = ("-" if v["neg"] else "") + digits(v["nanos"])
        return None if obs[1] == want else "value"
    if k == "date":
        return None if obs == ["Date", str(v["y"]), str(v["m"]), str(v["d"])] else "value"
    if k in ("tod", "dt"):
        if obs[0] != ("Tod" if k == "tod" else "Dt"):
            return "node-kind:%s" % obs[0]
        fields = obs[1:]
        frac = fields[-1]
        ns = int((frac + "0" * 9)[:9]) if frac != "0" else 0
        got = [int(x) for x in fields[:-1]] + [ns]
        want = ([v["y"], v["m"], v["d"]] if k == "dt" else []) + [v["h"], v["mi"], v["s"], int(digits(v["nanos"]))]
        return None if got == want else "value"
    if k == "str":
        if obs == "-" or obs[0] != "Str":
            return "node-kind"
        want = "".join(CHAR.get(c, c) for c in v["chars"])
        return None if obs[1] == want else "value"
    if k == "bool":
        if obs[0] != "Bool":
            return "node-kind:%s" % obs[0]
        return None if obs[1] == ("TRUE" if v["v"] else "FALSE") else "value"
    if k == "addr":
        if obs[0] != "Addr":
            return "node-kind:%s" % obs[0]
        want = ["Addr", v["loc"], v["size"] or "-", ["L"] + [digits(c) for c in v["comps"]]]
        return None if obs == want else "value"
    return "unknown-kind"


def main():
    tier = sys.argv[1] if len(sys.argv) > 1 else vlib.TIER
    vlib.TIER = tier
    vlib.build()
    rep = vlib.Report("C09")
    cov = {"states": 0, "transitions": 0, "traces_validated_against_impl": 0, "samples": [], "tlc_runs": []}
    with ThreadPoolExecutor(max_workers=len(GROUPS)) as ex:
        runs = list(ex.map(lambda g: vlib.tlc_check("Literal.tla", "MC_Literal_%s.cfg" % g, workers=3, timeout=3600), GROUPS))
    recs = []
    for g, r in zip(GROUPS, runs):
        cov["states"] += r["states"]
        cov["transitions"] += r["transitions"]
        cov["tlc_runs"].append({"cfg": "MC_Literal_%s.cfg" % g, "states": r["states"], "literals": len(r["replay"]), "wall_s": round(r["wall_s"], 1)})
        recs += [x for x in r["replay"] if x.get("R") == "lit"]
    texts = [place(r) for r in recs]
    res = vlib.harness("parse", [{"id": i, "text": t, "tree": True} for i, t in enumerate(texts)])
    classes = {}
    for rec, text, r in zip(recs, texts, res):
        lit = "".join(rec["text"])
        labels = set(rec["labs"]) | {"expect:" + rec["expect"]}
        classes[(rec["kind"], rec["expect"])] = classes.get((rec["kind"], rec["expect"]), 0) + 1
        sig = None
        expect = rec["expect"]
        if rec["kind"] == "real":
            v = rec["value"]
            exact = Fraction(int(digits(v["mant"]))) * (Fraction(10) ** v["exp10"])
            if exact > F64_MAX * (1 + Fraction(1, 2 ** 54)):
                expect = "reject"          # overflows every IEC real type: cannot be represented
        if "panic" in r or "abort" in r or "timeout" in r:
            sig = "crash:%s" % (r.get("panic") or "abort")[:60]
        elif r.get("ok"):
            if expect == "reject":
                sig = "accepted-unrepresentable-or-ill-formed"
            else:
                try:
                    why = compare(rec, observed(r["tree"]))
                except (gram.ProjError, KeyError, IndexError, ValueError) as e:
                    why = "unprojectable:%s" % type(e).__name__
                if why:
                    sig = "accepted-with-wrong-%s" % why
        else:
            code = (r.get("diag") or {}).get("code")
            if expect == "accept":
                sig = "rejected-well-formed:%s" % code
            elif code not in ("P0002", "P0031"):
                sig = "rejected-without-syntax-diagnostic:%s" % code
        if sig:
            rep.add("%s:%s" % (rec["kind"], sig), labels=labels,
                    detail={"literal": lit, "expected_value": rec["value"], "expect": expect,
                            "observed": (observed(r["tree"]) if r.get("ok") else r.get("diag"))},
                    replay={"text": text})
    cov["literals"] = len(recs)
    cov["traces_validated_against_impl"] = len(recs)
    cov["classes"] = {"%s/%s" % k: v for k, v in sorted(classes.items())}
    if any(v == 0 for v in classes.values()):
        raise vlib.ToolError("empty expectation class")
    cov["samples"] += [{"literal": "".join(r["text"]), "value": r["value"], "expect": r["expect"]} for r in recs[::max(1, len(recs) // 6)][:6]]
    cov["exhaustive"] = True
    cov["rule"] = "every literal of Literal.tla's structured space (see the set definitions IntLits, RealLits, DurLits, ... in the module)"
    return rep.finish("model_checking", cov, assumptions=[
        "REAL: the specification gives the exact decimal rational; correct rounding to binary64 is checked with Python fractions",
        "sub-nanosecond fractions are not generated (the resolution of TIME is implementation defined)"])


if __name__ == "__main__":
    vlib.main_wrapper(main)
