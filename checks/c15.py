#!/usr/bin/env python3
"""C15 - semantic tokens decode to exactly the highlighted lexemes of the document.

 1. Lexer.tla: the relative encoding and its inverse are model-checked (CodecRoundTrip, SemTokOrdered) on the
    highlighted lexemes of every class string; the class table (kind -> admissible legend entries) is
    printed by TLC and used as the oracle.
 2. spec -> impl: every class-string document is sent to `ironplcc lsp --stdio` as part of an edit history
    (20 documents per server process, tokens requested after each edit); the decoded response must be the
    specification's highlighted lexemes (line, column, length, class); documents with invalid text get null.
 3. generated IEC documents with trivia (docgen): expected lexemes known by construction.
"""
import os
import random
import sys
from concurrent.futures import ThreadPoolExecutor

sys.path.insert(0, os.path.join(os.path.dirname(os.path.abspath(__file__)), "..", "drivers"))
import lexcheck  # noqa: E402
import semtok  # noqa: E402
import vlib  # noqa: E402


def main():
    tier = sys.argv[1] if len(sys.argv) > 1 else vlib.TIER
    vlib.TIER = tier
    vlib.build()
    rep = vlib.Report("C15")
    cov = {"states": 0, "transitions": 0, "traces_validated_against_impl": 0, "samples": [], "tlc_runs": []}
    cfgs = ["A4", "D4", "C4", "E5c"] if tier == "quick" else ["A5", "D5", "C5", "B5", "E6c"]
    per = max(2, vlib.NCPU // len(cfgs))
    with ThreadPoolExecutor(max_workers=len(cfgs)) as ex:
        runs = list(ex.map(lambda c: vlib.tlc_check("Lexer.tla", "MC_Lexer_%s.cfg" % c, workers=per, timeout=7200), cfgs))
    class_table, kw_default = None, None
    docs = []
    for c, r in zip(cfgs, runs):
        cov["states"] += r["states"]
        cov["transitions"] += r["transitions"]
        cov["tlc_runs"].append({"cfg": "MC_Lexer_%s.cfg" % c, "states": r["states"], "wall_s": round(r["wall_s"], 1)})
        seen = set()
        for b in r["replay"]:
            if b["R"] == "classes":
                class_table, kw_default = b["table"], b["keyword_default"]
            elif b["R"] == "lex":
                key = tuple(b["text"])
                if key in seen:
                    continue            # a second behaviour differs only in how an unterminated lexeme is reported
                seen.add(key)
                docs.append({"classes": b["text"], "text": lexcheck.concretize(b["text"]), "hl": b["hl"], "err": b["err"],
                             "labels": {"classes"}})
    if class_table is None:
        raise vlib.ToolError("class table not printed by TLC")
    try:
        import docgen
        docs += docgen.semtok_documents(tier, vlib.SEED, class_table, kw_default, cov)
    except ImportError:
        cov["generated_documents"] = "not built yet"
    rng = random.Random(vlib.SEED)
    rng.shuffle(docs)
    bs = 20
    batches = [docs[i:i + bs] for i in range(0, len(docs), bs)]
    with ThreadPoolExecutor(max_workers=vlib.NCPU) as ex:
        outs = list(ex.map(lambda b: semtok.run_batch([d["text"] for d in b]), batches))
    nerr = 0
    for b, (legend, datas, rc) in zip(batches, outs):
        if legend is None:
            rep.add("no-legend-in-initialize-result", labels={"server"}, detail={"rc": rc})
            continue
        if rc != 0:
            rep.add("server-exit-status:%s" % rc, labels={"server"}, detail={"docs": [d["text"] for d in b]})
        for d, data in zip(b, datas):
            if data == "NO-RESPONSE":
                sig = "no-response"
            else:
                sig = None if d["hl"] is None else semtok.check_doc(data, d["hl"], d["err"], legend, class_table, kw_default)
                if sig is None and not d["err"]:
                    # an oracle that owes nothing to the implementation's own token stream: the comments of the text
                    sig = semtok.comment_oracle(d["text"], data, legend)
            nerr += 1 if d["err"] else 0
            if sig:
                rep.add("semtok:" + sig, labels=d["labels"],
                        detail={"text": d["text"], "expected": d["hl"], "data": data, "decoded": semtok.decode(data) if isinstance(data, list) else None,
                                "legend": legend},
                        replay={"text": d["text"]})
    cov["documents"] = len(docs)
    cov["documents_with_invalid_text"] = nerr
    cov["server_processes"] = len(batches)
    cov["traces_validated_against_impl"] = len(docs)
    cov["samples"].append({k: v for k, v in docs[0].items() if k != "labels"})
    cov["exhaustive"] = True
    cov["rule"] = "every class string of the Lexer.tla configurations as a document, inside edit histories of 20 documents per server"
    return rep.finish("model_checking", cov, assumptions=[
        "column / length unit: bytes, scalar values or UTF-16 units accepted",
        "legend entry of a keyword: the specification's ClassOf table allows keyword|modifier|string where the property does not decide"])


if __name__ == "__main__":
    vlib.main_wrapper(main)
