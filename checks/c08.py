#!/usr/bin/env python3
"""C08 - letter case, layout and comments never change what a program means.

Relational check over the derivations of Grammar.tla (the C01 corpus): the canonical spelling and
 (a) single-site variants: every keyword / textual keyword / literal prefix that occurs in the corpus, alone
     in lower and mixed case (so a failure names the keyword),
 (b) all-sites random variants: random case per keyword and per identifier occurrence, random trivia
     (blanks, tabs, LF, CRLF, FF, comments incl. multi-line, nested-looking, non-ASCII, '**)' endings) at every
     inter-token position,
 (c) END_IF without its optional semicolon,
must parse to the same library (positions and original spelling ignored) and get the same analysis verdict/codes.
Declaration/use pairs with differing case are exercised on the units of Unit.tla (unitcheck), when built.
"""
import os
import random
import re
import sys

sys.path.insert(0, os.path.join(os.path.dirname(os.path.abspath(__file__)), "..", "drivers"))
import gram  # noqa: E402
import gramcheck  # noqa: E402
import vlib  # noqa: E402

QUICK = ["Expr2", "ExprS3", "FbS3", "FbStr3", "ProgStr3", "FuncS3", "ProgS3", "ConfigS5", "Stmt2", "Types3", "Fb2", "Prog2", "Func2", "Sfc3", "Config3"]
THOROUGH = ["Expr3", "ExprS4", "FbS4", "FbStr4", "ProgStr4", "FuncS4", "ProgS4", "ConfigS5", "Stmt3", "Types4", "Fb3", "Prog3", "Func3", "Sfc4", "Config4", "Lib2"]


def single_site(ds, rep, cov):
    """(a): one keyword at a time"""
    words = {}
    for d in ds:
        for i, (cat, text, glue) in enumerate(d["toks"]):
            if cat == "kw" and re.fullmatch(r"[A-Za-z_][A-Za-z_0-9]*", text):
                words.setdefault(("kw", text), [])
                if len(words[("kw", text)]) < 2:
                    words[("kw", text)].append((d, i))
            elif cat == "lit" and "#" in text and not text.startswith(("'", '"', "%")):
                pre = text.split("#")[0]
                if re.fullmatch(r"[A-Za-z_]+", pre):
                    words.setdefault(("litprefix", pre.upper()), [])
                    if len(words[("litprefix", pre.upper())]) < 2:
                        words[("litprefix", pre.upper())].append((d, i))
            elif cat == "lit" and re.search(r"[0-9][eE][+-]?[0-9]", text):
                words.setdefault(("exponent", "E"), [])
                if len(words[("exponent", "E")]) < 2:
                    words[("exponent", "E")].append((d, i))
            elif cat == "lit" and re.fullmatch(r"(?i)(t|time)#-?[0-9_.]+(d|h|m|s|ms)", text):
                unit = re.search(r"(?i)(ms|d|h|m|s)$", text).group(1).lower()
                words.setdefault(("durunit", unit), [])
                if len(words[("durunit", unit)]) < 2:
                    words[("durunit", unit)].append((d, i))
    texts, meta = [], []
    for (kind, w), sites in sorted(words.items()):
        for d, i in sites:
            base = gram.spell(d["toks"])[0]
            for style in ("lower", "upper", "mixed"):
                toks = [list(t) for t in d["toks"]]
                t = toks[i][1]
                if kind == "kw":
                    nt = {"lower": t.lower(), "upper": t.upper(), "mixed": t[0].upper() + t[1:].lower() if len(t) > 1 else t.lower()}[style]
                elif kind == "litprefix":
                    pre, rest = t.split("#", 1)
                    nt = {"lower": pre.lower(), "upper": pre.upper(), "mixed": pre.capitalize()}[style] + "#" + rest
                elif kind == "exponent":
                    nt = re.sub(r"(?<=[0-9])[eE](?=[+-]?[0-9])", "e" if style == "lower" else "E", t)
                else:
                    m = re.search(r"(?i)(ms|d|h|m|s)$", t)
                    u = m.group(1)
                    nt = t[:m.start()] + {"lower": u.lower(), "upper": u.upper(), "mixed": u.capitalize()}[style]
                if nt == t:
                    continue
                toks[i][1] = nt
                texts.append(base)
                meta.append((kind, w, style, d, None))
                texts.append(gram.spell(toks)[0])
                meta.append((kind, w, style, d, base))
    res = gramcheck.parse_cases(texts, analyze=True)
    n = 0
    for k in range(0, len(texts), 2):
        kind, w, style, d, _ = meta[k]
        b, r = res[k], res[k + 1]
        if not b.get("ok"):
            continue
        n += 1
        sig = None
        if gramcheck._crash(r):
            sig = gramcheck._crash(r)
        elif not r.get("ok"):
            sig = "rejected"
        elif gram.strip_tree(b["tree"]) != gram.strip_tree(r["tree"]):
            sig = "parses-differently"
        elif (b.get("analyze_ok"), sorted(set(x["code"] for x in b.get("analyze_diags", [])))) != \
                (r.get("analyze_ok"), sorted(set(x["code"] for x in r.get("analyze_diags", [])))):
            sig = "verdict-differs"
        if sig:
            rep.add("case:%s:%s:%s" % (kind, w, sig), labels={"case:" + kind, "word:" + w},
                    detail={"style": style, "canonical": texts[k], "respelled": texts[k + 1], "diag": r.get("diag")},
                    replay={"canonical": texts[k], "respelled": texts[k + 1]})
    cov["single_site_words"] = len(words)
    cov["single_site_pairs"] = n
    cov["keywords_exercised"] = sorted(w for (k, w) in words if k == "kw")


def main():
    tier = sys.argv[1] if len(sys.argv) > 1 else vlib.TIER
    vlib.TIER = tier
    vlib.build()
    rep = vlib.Report("C08")
    cov = {"states": 0, "transitions": 0, "traces_validated_against_impl": 0, "samples": [], "tlc_runs": []}
    nds = 0
    stats = {"cases": 0, "ok": 0}
    d0 = None
    ss = {"single_site_words": 0, "single_site_pairs": 0, "keywords_exercised": set()}
    for ds in gramcheck.batches(QUICK if tier == "quick" else THOROUGH, tier, cov):
        single_site(ds, rep, cov)
        ss["single_site_words"] = max(ss["single_site_words"], cov.get("single_site_words", 0))
        ss["single_site_pairs"] += cov.get("single_site_pairs", 0)
        ss["keywords_exercised"] |= set(cov.get("keywords_exercised", []))
        fails, st = gramcheck.replay(ds, "c08", vlib.SEED, {"respell": 2 if tier == "quick" else 8})
        stats["cases"] += st["cases"]
        stats["ok"] += st["ok"]
        nds += len(ds)
        for d, vn, text, sig, det in fails:
            if vn == "canonical":
                continue
            rep.add("%s:%s" % (vn, sig), labels=set(d["labs"]) | {"variant:" + vn},
                    detail=dict(det, canonical=gram.spell(d["toks"])[0], respelled=text),
                    replay={"canonical": gram.spell(d["toks"])[0], "respelled": text})
        if d0 is None:
            d0 = ds[len(ds) // 3]
    cov["single_site_words"] = ss["single_site_words"]
    cov["single_site_pairs"] = ss["single_site_pairs"]
    cov["keywords_exercised"] = sorted(ss["keywords_exercised"])
    cov["derivations"] = nds
    cov["sentences_parsed"] = stats["cases"]
    cov["traces_validated_against_impl"] = stats["cases"] + cov.get("single_site_pairs", 0)
    rng = random.Random(1)
    cov["samples"].append({"canonical": gram.spell(d0["toks"])[0], "respelled": gram.spell(d0["toks"], rng, trivia=True, case=True)[0]})
    cov["exhaustive"] = False
    cov["rule"] = ("every derivation x random all-site re-spellings + END_IF without semicolon; every keyword / literal prefix / "
                   "duration unit of the corpus alone in lower, upper and mixed case")
    return rep.finish("model_checking", cov, assumptions=[
        "trivia is only varied where the canonical spelling has white space (the property speaks of replacing white space)",
        "hex digits are upper-case only (IEC 61131-3 B.1.2.1) and are not re-spelled"])


if __name__ == "__main__":
    vlib.main_wrapper(main)
