#!/usr/bin/env python3
"""C08 - letter case, layout and comments never change what a program means.

Relational check over the derivations of Grammar.tla (the C01 corpus): the canonical spelling and
 (a) single-site variants: every keyword / textual keyword / literal prefix that occurs in the corpus, alone
     in lower and mixed case (so a failure names the keyword),
 (b) all-sites random variants: random case per keyword and per identifier occurrence, random trivia
     (blanks, tabs, LF, CRLF, FF, comments incl. multi-line, nested-looking, non-ASCII, '**)' endings) at every
     inter-token position,
 (c) END_IF without its optional semicolon,
must parse to the same library (positions and original spelling ignored) and get the same analysis verdict/codes.
(d) declaration / use pairs: every unit of Unit.tla's corpus (valid, grown, each planted fault) with its identifiers
    renamed so that together they use every letter, then every occurrence of every identifier and keyword in a random
    case of its own: the check verdict and the problem codes must be those of the canonical spelling.
"""
import os
import random
import re
import sys

sys.path.insert(0, os.path.join(os.path.dirname(os.path.abspath(__file__)), "..", "drivers"))
import gram  # noqa: E402
import gramcheck  # noqa: E402
import unitgen  # noqa: E402
import vlib  # noqa: E402

QUICK = ["SwExpr", "SwStmt", "SwTypes", "SwFb", "SwProg", "SwFunc", "SwSfc", "SwConfig","Expr2", "ExprS3", "FbS3", "FbStr3", "ProgStr3", "FuncS3", "ProgS3", "ConfigS5", "Stmt2", "Types3", "Fb2", "Prog2", "Func2", "Sfc3", "Config3"]
THOROUGH = ["SwExpr", "SwStmt", "SwTypes", "SwFb", "SwProg", "SwFunc", "SwSfc", "SwConfig","Expr3", "ExprS4", "FbS4", "FbStr4", "ProgStr4", "FuncS4", "ProgS4", "ConfigS5", "Stmt3", "Types4", "Fb3", "Prog3", "Func3", "Sfc4", "Config4", "Lib2"]


def single_site(ds, rep, cov):
    """(a): one keyword at a time"""
    words = {}
    for d in ds:
        for i, (cat, text, glue) in enumerate(d["toks"]):
            if cat == "kw" and re.fullmatch(r"[A-Za-z_][A-Za-z_0-9]*", text):
                words.setdefault(("kw", text), [])
                if len(words[("kw", text)]) < 2:
                    words[("kw", text)].append((d, i))
            elif cat == "lit" and "#" in text and not text.startswith(("'", '"', "%")):
                pre = text.split("#")[0]
                if re.fullmatch(r"[A-Za-z_]+", pre):
                    words.setdefault(("litprefix", pre.upper()), [])
                    if len(words[("litprefix", pre.upper())]) < 2:
                        words[("litprefix", pre.upper())].append((d, i))
            elif cat == "lit" and re.search(r"[0-9][eE][+-]?[0-9]", text):
                words.setdefault(("exponent", "E"), [])
                if len(words[("exponent", "E")]) < 2:
                    words[("exponent", "E")].append((d, i))
            elif cat == "lit" and re.fullmatch(r"(?i)(t|time)#-?[0-9_.]+(d|h|m|s|ms)", text):
                unit = re.search(r"(?i)(ms|d|h|m|s)$", text).group(1).lower()
                words.setdefault(("durunit", unit), [])
                if len(words[("durunit", unit)]) < 2:
                    words[("durunit", unit)].append((d, i))
    texts, meta = [], []
    for (kind, w), sites in sorted(words.items()):
        for d, i in sites:
            base = gram.spell(d["toks"])[0]
            for style in ("lower", "upper", "mixed"):
                toks = [list(t) for t in d["toks"]]
                t = toks[i][1]
                if kind == "kw":
                    nt = {"lower": t.lower(), "upper": t.upper(), "mixed": t[0].upper() + t[1:].lower() if len(t) > 1 else t.lower()}[style]
                elif kind == "litprefix":
                    pre, rest = t.split("#", 1)
                    nt = {"lower": pre.lower(), "upper": pre.upper(), "mixed": pre.capitalize()}[style] + "#" + rest
                elif kind == "exponent":
                    nt = re.sub(r"(?<=[0-9])[eE](?=[+-]?[0-9])", "e" if style == "lower" else "E", t)
                else:
                    m = re.search(r"(?i)(ms|d|h|m|s)$", t)
                    u = m.group(1)
                    nt = t[:m.start()] + {"lower": u.lower(), "upper": u.upper(), "mixed": u.capitalize()}[style]
                if nt == t:
                    continue
                toks[i][1] = nt
                texts.append(base)
                meta.append((kind, w, style, d, None))
                texts.append(gram.spell(toks)[0])
                meta.append((kind, w, style, d, base))
    res = gramcheck.parse_cases(texts, analyze=True)
    n = 0
    for k in range(0, len(texts), 2):
        kind, w, style, d, _ = meta[k]
        b, r = res[k], res[k + 1]
        if not b.get("ok"):
            continue
        n += 1
        sig = None
        if gramcheck._crash(r):
            sig = gramcheck._crash(r)
        elif not r.get("ok"):
            sig = "rejected"
        elif gram.strip_tree(b["tree"]) != gram.strip_tree(r["tree"]):
            sig = "parses-differently"
        elif (b.get("analyze_ok"), sorted(set(x["code"] for x in b.get("analyze_diags", [])))) != \
                (r.get("analyze_ok"), sorted(set(x["code"] for x in r.get("analyze_diags", [])))):
            sig = "verdict-differs"
        if sig:
            rep.add("case:%s:%s:%s" % (kind, w, sig), labels={"case:" + kind, "word:" + w},
                    detail={"style": style, "canonical": texts[k], "respelled": texts[k + 1], "diag": r.get("diag")},
                    replay={"canonical": texts[k], "respelled": texts[k + 1]})
    cov["single_site_words"] = len(words)
    cov["single_site_pairs"] = n
    cov["keywords_exercised"] = sorted(w for (k, w) in words if k == "kw")


RESERVED = set("""TYPE END_TYPE STRUCT END_STRUCT ARRAY OF FUNCTION_BLOCK END_FUNCTION_BLOCK FUNCTION END_FUNCTION PROGRAM END_PROGRAM
VAR VAR_INPUT VAR_OUTPUT VAR_IN_OUT VAR_EXTERNAL VAR_GLOBAL VAR_ACCESS VAR_CONFIG END_VAR CONSTANT RETAIN NON_RETAIN AT IF THEN ELSIF ELSE END_IF
CASE END_CASE FOR TO BY DO END_FOR WHILE END_WHILE REPEAT UNTIL END_REPEAT EXIT RETURN CONFIGURATION END_CONFIGURATION RESOURCE ON
END_RESOURCE TASK WITH PRIORITY INTERVAL INT BOOL REAL TIME DINT SINT LINT UINT STRING TRUE FALSE TON TOF CTU R_TRIG AND OR NOT MOD XOR
INITIAL_STEP STEP END_STEP TRANSITION END_TRANSITION FROM ACTION END_ACTION N R S P L D SD DS SL P0 P1 READ_ONLY READ_WRITE R_EDGE F_EDGE""".split())
_WORD = re.compile(r"[A-Za-z_][A-Za-z0-9_]*")


def _words(text):
    """(start, end) of every word outside comments and string literals"""
    out = []
    i, n = 0, len(text)
    while i < n:
        if text.startswith("(*", i):
            j = text.find("*)", i + 2)
            i = n if j < 0 else j + 2
        elif text[i] in "'\"":
            j = text.find(text[i], i + 1)
            i = n if j < 0 else j + 1
        elif text[i].isdigit():
            # a number, or the numeric part of a literal (100ms, 16#FF, 1.5E3): not a word
            m = re.compile(r"[0-9][0-9A-Za-z_.#]*").match(text, i)
            i = m.end()
        else:
            m = _WORD.match(text, i)
            if m:
                # the prefix of a typed literal (T#100ms, INT#5) is part of the literal, not a word of its own
                if not (text[m.end():m.end() + 1] == "#" and text[m.end() + 1:m.end() + 2].isdigit()):
                    out.append((m.start(), m.end()))
                i = m.end()
            else:
                i += 1
    return out


def rename_all(text):
    """every identifier gets a suffix of two letters; the suffixes walk through the alphabet, so the identifiers of a
    unit together use every letter (a declaration and its uses get the same suffix: the names stay the same names)"""
    suffix = {}
    parts, last = [], 0
    for a, b in _words(text):
        w = text[a:b]
        if w.upper() in RESERVED:
            continue
        k = w.lower()
        if k not in suffix:
            n = len(suffix)
            suffix[k] = "_" + chr(97 + (2 * n) % 26) + chr(97 + (2 * n + 1) % 26)
        parts.append(text[last:b] + suffix[k])
        last = b
    parts.append(text[last:])
    return "".join(parts)


def recase(text, rng):
    parts, last = [], 0
    for a, b in _words(text):
        parts.append(text[last:a] + gram.case_variant(text[a:b], rng))
        last = b
    parts.append(text[last:])
    return "".join(parts)


def unit_clause(rep, cov, tier):
    r = vlib.tlc_check("Unit.tla", "MC_Unit_1.cfg" if tier == "quick" else "MC_Unit_2gp.cfg", workers=4, name="c08_MC_Unit")
    cov["states"] += r["states"]
    cov["transitions"] += r["transitions"]
    recs = [x for x in r["replay"] if x.get("R") == "unit"]
    if tier != "quick":
        recs = recs[::4]
    cov["tlc_runs"].append({"cfg": "MC_Unit (case clause)", "states": r["states"], "units": len(recs)})
    rng = random.Random(vlib.SEED + 8)
    k = 3 if tier == "quick" else 4
    cases, meta = [], []
    letters = set()
    for rec in recs:
        base = rename_all(unitgen.render(rec["unit"])[0])
        letters |= set(c for a, b in _words(base) for c in base[a:b].lower() if c.isalpha())
        for v in range(k + 1):
            t = base if v == 0 else recase(base, rng)
            cases.append({"id": len(cases), "files": [{"name": "unit.st", "text": t}]})
            meta.append((rec, v, base, t))
    res = vlib.harness("analyze", cases)
    ref = None
    n = 0
    for (rec, v, base, t), rr in zip(meta, res):
        obs = ("crash" if ("panic" in rr or "abort" in rr or "timeout" in rr) else
               (all(p["ok"] for p in rr.get("parse", [])), bool(rr.get("analyze_ok")), sorted(set(d["code"] for d in rr.get("analyze_diags", [])))))
        if v == 0:
            ref = obs
            if obs == "crash" or not obs[0] or (not rec["violated"] and not obs[1] and obs[2] != ["P9999"]):
                # vacuity guard: the renamed canonical text must still be the unit it was made from
                raise vlib.ToolError("the renamed canonical spelling of a unit is not accepted as the unit was: %r\n%s" % (obs, base[:1500]))
            continue
        n += 1
        if obs != ref:
            what = "crash" if obs == "crash" else ("rejected-by-the-parser" if ref != "crash" and ref[0] and not obs[0] else "verdict-or-codes-differ")
            rep.add("unit-case:%s" % what, labels=set(e[0] for e in rec["edits"]) | {"unit-case"},
                    detail={"edits": rec["edits"], "canonical": ref, "respelled": obs},
                    replay={"canonical": base, "respelled": t, "cmd": "vph analyze"})
    if len(letters) < 26:
        raise vlib.ToolError("the identifiers of the unit corpus do not use every letter: %s" % "".join(sorted(letters)))
    cov["unit_case_variants"] = n
    cov["unit_case_letters"] = len(letters)
    cov["traces_validated_against_impl"] += n


def main():
    tier = sys.argv[1] if len(sys.argv) > 1 else vlib.TIER
    vlib.TIER = tier
    vlib.build()
    rep = vlib.Report("C08")
    cov = {"states": 0, "transitions": 0, "traces_validated_against_impl": 0, "samples": [], "tlc_runs": []}
    nds = 0
    stats = {"cases": 0, "ok": 0}
    d0 = None
    ss = {"single_site_words": 0, "single_site_pairs": 0, "keywords_exercised": set()}
    for ds in gramcheck.batches(QUICK if tier == "quick" else THOROUGH, tier, cov):
        single_site(ds, rep, cov)
        ss["single_site_words"] = max(ss["single_site_words"], cov.get("single_site_words", 0))
        ss["single_site_pairs"] += cov.get("single_site_pairs", 0)
        ss["keywords_exercised"] |= set(cov.get("keywords_exercised", []))
        fails, st = gramcheck.replay(ds, "c08", vlib.SEED, {"respell": 2 if tier == "quick" else 8})
        stats["cases"] += st["cases"]
        stats["ok"] += st["ok"]
        nds += len(ds)
        for d, vn, text, sig, det in fails:
            if vn == "canonical":
                continue
            rep.add("%s:%s" % (vn, sig), labels=set(d["labs"]) | {"variant:" + vn},
                    detail=dict(det, canonical=gram.spell(d["toks"])[0], respelled=text),
                    replay={"canonical": gram.spell(d["toks"])[0], "respelled": text})
        if d0 is None:
            d0 = ds[len(ds) // 3]
    unit_clause(rep, cov, tier)
    cov["single_site_words"] = ss["single_site_words"]
    cov["single_site_pairs"] = ss["single_site_pairs"]
    cov["keywords_exercised"] = sorted(ss["keywords_exercised"])
    cov["derivations"] = nds
    cov["sentences_parsed"] = stats["cases"]
    cov["traces_validated_against_impl"] = stats["cases"] + cov.get("single_site_pairs", 0)
    rng = random.Random(1)
    cov["samples"].append({"canonical": gram.spell(d0["toks"])[0], "respelled": gram.spell(d0["toks"], rng, trivia=True, case=True)[0]})
    cov["exhaustive"] = False
    cov["rule"] = ("every derivation x random all-site re-spellings + END_IF without semicolon; every keyword / literal prefix / "
                   "duration unit of the corpus alone in lower, upper and mixed case")
    return rep.finish("model_checking", cov, assumptions=[
        "trivia is only varied where the canonical spelling has white space (the property speaks of replacing white space)",
        "hex digits are upper-case only (IEC 61131-3 B.1.2.1) and are not re-spelled"])


if __name__ == "__main__":
    vlib.main_wrapper(main)
