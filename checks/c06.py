#!/usr/bin/env python3
"""C06 - the result is independent of declaration order, file partition, file order and run.

Pipeline.tla (OrderIndependent: the verdict is a function of the SET of declarations; NothingLostBySort) is
model-checked per scenario over every permutation of up to 5 declarations, every partition into up to 3 files
and every file order - which is also how the randomly seeded map of sources is modelled.  Every arrangement is
analysed for real: analyze() with the libraries in exactly that order (this enumerates the hash-map orders
deterministically), Project::semantic() twice on one project, and fresh `ironplcc check` processes with permuted
arguments (fresh hash seeds).  One verdict per scenario; for single-fault scenarios one set of
(problem code, declaration, labelled lexeme).  Eight-declaration sets: sampled arrangements into <= 4 files.
"""
import os
import sys
from concurrent.futures import ThreadPoolExecutor

sys.path.insert(0, os.path.join(os.path.dirname(os.path.abspath(__file__)), "..", "drivers"))
import pipecheck  # noqa: E402
import pipescen  # noqa: E402
import vlib  # noqa: E402


def main():
    tier = sys.argv[1] if len(sys.argv) > 1 else vlib.TIER
    vlib.TIER = tier
    vlib.build()
    pipescen.write_specs()
    rep = vlib.Report("C06")
    cov = {"states": 0, "transitions": 0, "traces_validated_against_impl": 0, "samples": [], "tlc_runs": []}
    sc = pipescen.scenarios()
    names = ["valid5", "valid4", "valid3", "validLB", "validLC", "validT5", "validT8", "valid24", "missing_E", "missing_C", "valid8"] + [n for n in sc if n.startswith("rule_") or n.startswith("rule8_")]
    names += ["lex_U", "syn_C", "dup_C", "ctxrule_GX", "validGX"]
    if tier == "quick":
        names = [n for n in names if n not in ("rule8_E2", "rule8_S", "rule8_F", "valid4")]
    with ThreadPoolExecutor(max_workers=4) as ex:
        results = list(ex.map(lambda n: pipecheck.run_scenario(n, sc[n], tier, vlib.SEED, cov), names))
    wd = vlib.workdir("c06_cli")
    total = 0
    for name, res in zip(names, results):
        decls = sc[name]
        labels = {"scenario:" + name, "kind:" + name.split("_")[0].rstrip("8")}
        single_rule = name.split("_")[0] in ("rule", "rule8", "ctxrule")
        ref = None
        want = None
        if single_rule:
            k = [kk for kk, f in decls if f == "rule"][0]
            _, code, lexeme = pipescen.RULE_FAULT[k]
            want = {(code, pipescen.KINDS[k][0], lexeme)}
        for a, recno, rec in res.get("trace_rejected", []):
            what = "%s:%s" % (rec.get("ev"), rec.get("stage", rec.get("index", ""))) if rec else "?"
            rep.add("stage-trace-rejected:" + what, labels=labels | {"stage-trace"},
                    detail={"arrangement": a, "first_unmatched_record": rec, "record_number": recno},
                    replay={"scenario": name, "arrangement": a})
        for a, obs in res["runs"]:
            total += 1
            replay = {"scenario": name, "arrangement": a, "files": [(fn, t) for fn, t, _ in pipecheck.build_files(decls, a)]}
            if "crash" in obs:
                rep.add("crash:%s" % obs["crash"][:50], labels=labels, detail={"arrangement": a}, replay=replay)
                continue
            for which in ("direct", "project", "project_again"):
                if obs[which] != res["expected"]:
                    rep.add("verdict-depends-on-arrangement:%s:%s" % (which, "single-file" if len(a) == 1 else "multi-file"), labels=labels,
                            detail={"arrangement": a, "expected": res["expected"], "observed": obs[which], "diags": sorted(obs["diags"])}, replay=replay)
                    break
            else:
                if single_rule:
                    for which in ("diags", "project_diags"):
                        if obs[which] != want:
                            rep.add("code-or-location-depends-on-arrangement:%s" % which, labels=labels,
                                    detail={"arrangement": a, "expected": sorted(want), "observed": sorted(obs[which])}, replay=replay)
                            break
                elif res["expected"] == "Err" and not name.startswith(("lex", "syn")):
                    codes = frozenset(c for c, _, _ in obs["project_diags"])
                    if ref is None:
                        ref = (codes, a)
                    elif codes != ref[0]:
                        rep.add("codes-depend-on-arrangement", labels=labels,
                                detail={"a": ref[1], "codes_a": sorted(ref[0]), "b": a, "codes_b": sorted(codes)}, replay=replay)
        # repeated fresh processes, permuted arguments, directory form
        sample = [a for a, _ in res["runs"]][:: max(1, len(res["runs"]) // (8 if tier == "quick" else 80))]
        seen = None
        for a, outs in pipecheck.cli_runs(name, decls, sample, 6 if tier == "quick" else 12, wd):
            for rc, ok, codes in outs:
                total += 1
                v = (rc, ok, tuple(codes) if single_rule or res["expected"] == "Ok" else None)
                if seen is None:
                    seen = (v, a)
                    exp_rc = 0 if res["expected"] == "Ok" else 1
                    if rc != exp_rc:
                        rep.add("cli-verdict-differs-from-specification", labels=labels | {"cli"}, detail={"arrangement": a, "rc": rc, "codes": codes},
                                replay={"scenario": name, "arrangement": a})
                elif v != seen[0]:
                    rep.add("cli-result-depends-on-run-or-argument-order", labels=labels | {"cli"},
                            detail={"a": seen[1], "result_a": seen[0], "b": a, "result_b": v}, replay={"scenario": name, "arrangement": a})
                    break
    cov["scenarios"] = names
    cov["analyses"] = total
    cov["traces_validated_against_impl"] = total
    cov["samples"].append({"scenario": "rule_U", "arrangement": [[4, 1], [5], [3, 2]],
                           "expected": sorted(map(list, {(pipescen.RULE_FAULT["U"][1], "USER", pipescen.RULE_FAULT["U"][2])}))})
    cov["exhaustive"] = tier != "quick"
    cov["rule"] = ("every permutation x partition into <= 3 files x file order of the declarations of each scenario (quick: all single-file "
                   "permutations + 1/4 of the multi-file arrangements); sampled arrangements of 8 declarations; repeated fresh CLI processes")
    return rep.finish("model_checking", cov, assumptions=[
        "explicit library orders passed to analyze() enumerate the iteration orders of the project's hash map"])


if __name__ == "__main__":
    vlib.main_wrapper(main)
