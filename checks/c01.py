#!/usr/bin/env python3
"""C01 - parsing is faithful: the library returned denotes exactly the source program.

Grammar.tla (derivation machine over the Annex-B reference grammar in GrammarProds.tla) is model-checked per
grammar area (OneValue, NothingDropped, Terminates, PrecedenceShape).  TLC enumerates every derivation within
the budget and prints tokens + the abstract syntax the sentence denotes + the production labels used.
Every derivation is spelled (canonically and with random layout), parsed by parse_program, the returned
library is projected to the same abstract syntax and compared node by node.
"""
import os
import re
import sys

sys.path.insert(0, os.path.join(os.path.dirname(os.path.abspath(__file__)), "..", "drivers"))
import gram  # noqa: E402
import gramcheck  # noqa: E402
import vlib  # noqa: E402

QUICK = ["SwExpr", "SwStmt", "SwTypes", "SwFb", "SwProg", "SwFunc", "SwSfc", "SwConfig","Expr2", "ExprS3", "FbS3", "FbE4", "FbStr3", "ProgStr3", "FuncS3", "ProgS3", "ConfigS5", "Stmt2", "Types3", "Fb2", "Prog2", "Func2", "Sfc3", "Config3", "Lib1"]
THOROUGH = ["SwExpr", "SwStmt", "SwTypes", "SwFb", "SwProg", "SwFunc", "SwSfc", "SwConfig","Expr3", "ExprS4", "FbS4", "FbE4", "FbStr4", "ProgStr4", "FuncS4", "ProgS4", "ConfigS5", "Stmt3", "Types4", "Fb3", "Prog3", "Func3", "Sfc4", "Config4", "Lib2"]


def main():
    tier = sys.argv[1] if len(sys.argv) > 1 else vlib.TIER
    vlib.TIER = tier
    vlib.build()
    rep = vlib.Report("C01")
    cov = {"states": 0, "transitions": 0, "traces_validated_against_impl": 0, "samples": [], "tlc_runs": []}
    labels = set()
    nds = 0
    stats = {"cases": 0, "ok": 0}
    d0 = None
    for ds in gramcheck.batches(QUICK if tier == "quick" else THOROUGH, tier, cov):
        fails, st = gramcheck.replay(ds, "c01", vlib.SEED, {"layouts": 1 if tier == "quick" else 3})
        stats["cases"] += st["cases"]
        stats["ok"] += st["ok"]
        nds += len(ds)
        canon_failed = set(id(d) for d, vn, _, _, _ in fails if vn == "canonical")
        for d, vn, text, sig, det in fails:
            if any(l.startswith("dg:") for l in d["labs"]):
                continue          # accepted by the parser, but not a sentence of the standard: outside "well-formed source text"
            if vn != "canonical" and id(d) in canon_failed:
                continue          # already reported for the canonical spelling
            if sig == "parse-fail":
                m = re.search(r"that matched token (.*)$", (det.get("diag") or {}).get("primary", {}).get("msg", ""))
                sig = "parse-fail:found=%s" % (m.group(1) if m else "?")
            if vn != "canonical":
                sig = "layout-only:" + sig
            rep.add(sig, labels=set(d["labs"]) | {"start:" + d["start"]},
                    detail=dict(det, text=text, variant=vn, labels=d["labs"]),
                    replay={"text": text, "cmd": "echo '{\"id\":0,\"text\":<text>}' | build/target/debug/vph parse"})
        for d in ds:
            labels |= set(d["labs"])
        if d0 is None:
            d0 = ds[len(ds) // 2]
    cov["derivations"] = nds
    cov["sentences_parsed"] = stats["cases"]
    cov["traces_validated_against_impl"] = stats["cases"]
    cov["literal_pool_entries_all_exercised"] = gramcheck.pool_obligation(labels)
    cov["production_labels_exercised"] = len(labels)
    cov["production_labels"] = sorted(labels)
    cov["samples"].append({"text": gram.spell(d0["toks"])[0], "denotes": gram.denote(d0["val"]), "labels": d0["labs"]})
    cov["exhaustive"] = True
    cov["excluded"] = ["instruction list", "VAR_TEMP", "multiple resources", "VAR_ACCESS in CONFIGURATION",
                       "arrays / structures / strings in the VAR block of a FUNCTION (var2_init_decl)",
                       "subrange specification in VAR / VAR_INPUT / VAR_OUTPUT blocks", "function-block name lists (fb_name_decl)"]
    cov["rule"] = "every derivation of the reference grammar per area within the fuel bound; each spelled canonically and with random trivia"
    return rep.finish("model_checking", cov, assumptions=[
        "the reference grammar is a transcription of IEC 61131-3 Annex B restricted to the productions the parser implements",
        "projection from the Debug output of dsl::Library into the abstract syntax (drivers/gram.py, gram_decl.py)"])


if __name__ == "__main__":
    vlib.main_wrapper(main)
