#!/usr/bin/env python3
"""C12 - the language server answers every request exactly once and survives any message sequence.

 1. Lsp.tla is model-checked: AnswerExactlyOnce, NeverAnswerNotification, UnknownGetsError, Survives,
    ShutdownThenExit (safety, all message kinds) and EventuallyAnswered under weak fairness (MC_Lsp_live.cfg).
 2. TLC enumerates every message sequence up to length 3 over all message kinds (2 URIs + a non-file URI,
    2 texts, 0/1/2 content changes, semantic-token / unknown requests, unknown notifications, client
    responses, requests and notifications whose params do not fit their method), closed by shutdown + exit; each is piped to a fresh server and the frames and the exit status
    must equal the specification's reply queue.
 3. Random interleavings up to length 60 are recorded and validated by LspTrace.tla (impl -> spec).
 4. TextSync.tla: every (document over 1- to 4-byte characters and line feeds, range in UTF-16 positions, inserted text) is
    sent as a didChange in the form the server's capabilities ask for (whole text / range); the semantic tokens afterwards
    must be those of a fresh server for the spliced text.
"""
import os
import sys

sys.path.insert(0, os.path.join(os.path.dirname(os.path.abspath(__file__)), "..", "drivers"))
import doctexts  # noqa: E402
import lspcheck  # noqa: E402
import lspdrv  # noqa: E402
import lsptrace  # noqa: E402
import textsync  # noqa: E402
import vlib  # noqa: E402

ALL_KINDS = ("open", "open", "change0", "change1", "change1", "change2", "open_nf", "semtok", "semtok", "unkreq",
             "unknotif", "cresp", "close", "badreq", "badnotif")


def main():
    tier = sys.argv[1] if len(sys.argv) > 1 else vlib.TIER
    vlib.TIER = tier
    vlib.build()
    rep = vlib.Report("C12")
    cov = {"states": 0, "transitions": 0, "traces_validated_against_impl": 0, "samples": [], "tlc_runs": []}
    live = vlib.tlc_check("Lsp.tla", "MC_Lsp_live.cfg", workers=4, want_replay=False, coverage=True)
    cov["states"] += live["states"]
    cov["transitions"] += live["transitions"]
    cov["tlc_runs"].append({"cfg": "MC_Lsp_live.cfg", "states": live["states"], "liveness": "EventuallyAnswered under WF"})
    for act in ("DidOpen", "DidChange", "DidOpenNonFile", "SemTok", "UnknownReq", "UnknownNotif", "ClientResponse", "DidClose", "BadParamsReq", "BadParamsNotif", "Shutdown", "Exit"):
        if live["coverage"].get(act, 0) == 0:
            raise vlib.ToolError("action %s never taken in MC_Lsp_live" % act)
    vlib.deviation_caught("Lsp.tla", "DEV_Lsp_DropUnknownRequest.cfg", "NoPendingAtRest", cov)
    vlib.deviation_caught("Lsp.tla", "DEV_Lsp_CrashOnResponse.cfg", "Survives", cov)
    vlib.deviation_caught("Lsp.tla", "DEV_Lsp_CrashOnBadParams.cfg", "Survives", cov)
    cov["actions_taken"] = {k: v for k, v in live["coverage"].items() if k[0].isupper()}
    # texts 1, 2 of the C12 alphabet: a valid document and one with a lexical error (null token result)
    texts = {1: doctexts.T_VALID, 2: doctexts.T_LEX, 3: doctexts.T_DUP}
    r = vlib.tlc_check("Lsp.tla", "MC_Lsp_C12_3.cfg", workers=vlib.NCPU, timeout=3600)
    cov["states"] += r["states"]
    cov["transitions"] += r["transitions"]
    cov["tlc_runs"].append({"cfg": "MC_Lsp_C12_3.cfg", "states": r["states"], "behaviours": len(r["replay"]),
                            "wall_s": round(r["wall_s"], 1)})
    replays = r["replay"]
    if tier == "quick":
        # every sequence of length <= 2 plus a deterministic 1/8 slice of length 3
        replays = [x for i, x in enumerate(replays) if len(x["hist"]) <= 4 or i % 8 == (vlib.SEED % 8)]
    tables = lspcheck.Tables(texts)
    dk, tk = lspcheck.needed_keys(replays)
    tables.fill(dk, tk)
    for u in tables.unstable:
        rep.add("fresh-server-diagnostics-not-deterministic", labels={"table"}, detail=u)
    tables.unstable = []
    results = lspcheck.run_replays(replays, texts)
    kinds = set()
    for rp, res in zip(replays, results):
        kinds |= lspcheck.labels_of(rp)
        sig = lspcheck.compare(rp, res, tables)
        if sig:
            rep.add("sequence:" + sig, labels=lspcheck.labels_of(rp),
                    detail={"history": rp["hist"], "expected": rp["out"], "observed": lspdrv.observe(res["frames"]),
                            "rc": res["rc"], "stderr": res["stderr"][-500:]},
                    replay={"history": rp["hist"], "texts": {str(k): v for k, v in texts.items()}})
    cov["sequences_replayed"] = len(replays)
    cov["message_kinds_exercised"] = sorted(kinds)
    cov["samples"].append({"sequence": replays[len(replays) // 2]["hist"], "expected": replays[len(replays) // 2]["out"]})
    # random interleavings up to length 60 over all five texts
    n = 200 if tier == "quick" else 20000
    t5 = lspcheck.Tables(doctexts.TEXTS)
    lsptrace.random_histories(rep, cov, t5, doctexts.TEXTS, n, maxlen=60, seed=vlib.SEED + 12, kinds=ALL_KINDS, prop="C12")
    # what a document is after a didChange, in the synchronisation kind the server advertises (TextSync.tla)
    textsync.run(rep, cov, tier)
    cov["exhaustive"] = tier != "quick"
    cov["rule"] = ("all message sequences up to length 3 over 43 message instances (quick: all of length <= 2 + 1/8 of length 3), "
                   "+ %d random interleavings up to length 60, each followed by shutdown and exit" % n)
    return rep.finish("model_checking", cov, assumptions=[
        "well-formed JSON-RPC only (every message is a request, response or notification object); params that do not fit an implemented method are part of the alphabet (badreq / badnotif)",
        "request ids are distinct integers (the message number)"])


if __name__ == "__main__":
    vlib.main_wrapper(main)
