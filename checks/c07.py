#!/usr/bin/env python3
"""C07 - recursion is rejected exactly when the declaration graph has a cycle.

Recursion.tla: Init ranges over all edge sets on up to 4 nodes (self-loops included); Cyclic(E) via transitive
closure, cross-checked by TLC against the order-theoretic definition (TwoDefinitionsAgree).  Each graph is realised
as function blocks (edge = instance), as data types (edge = structure element; out-degree 1 also as alias) and,
where every out-degree is <= 1, as a chain of enumeration aliases.  Random graphs up to 12 nodes come from the
same module (RandomSubset), and so do the deep / wide families on 16 and 40 nodes (chain, ladder = 2^(n/2) paths, fan,
dense; each also with one closing edge).  Oracle: a recursion code (P0010 / P0013) is reported  <=>  Cyclic(E); acyclic
units are accepted.
"""
import os
import sys
from concurrent.futures import ThreadPoolExecutor

sys.path.insert(0, os.path.join(os.path.dirname(os.path.abspath(__file__)), "..", "drivers"))
import vlib  # noqa: E402

REC = {"P0010", "P0013"}
UNSUPPORTED_KINDS = {"struct+alias", "struct+alias-lowercase-refs"}   # an alias of a structure type: P9999 on the pinned commit, cyclic or not


import graphreal  # noqa: E402
from graphreal import outs, realise_fb, realise_struct, realise_mixed, realise_enum_alias  # noqa: E402


def main():
    tier = sys.argv[1] if len(sys.argv) > 1 else vlib.TIER
    vlib.TIER = tier
    vlib.build()
    rep = vlib.Report("C07")
    cov = {"states": 0, "transitions": 0, "traces_validated_against_impl": 0, "samples": [], "tlc_runs": []}
    cfgs = ["MC_Rec_2.cfg", "MC_Rec_3.cfg", "MC_Rec_4s.cfg" if tier == "quick" else "MC_Rec_4.cfg", "MC_Rec_rand8.cfg", "MC_Rec_rand12.cfg",
            "MC_Rec_shapes16.cfg", "MC_Rec_shapes40.cfg"]
    with ThreadPoolExecutor(max_workers=3) as ex:
        runs = list(ex.map(lambda c: vlib.tlc_check("Recursion.tla", c, workers=5, timeout=7200), cfgs))
    graphs = []
    for c, r in zip(cfgs, runs):
        cov["states"] += r["states"]
        cov["transitions"] += r["transitions"]
        gs = [x for x in r["replay"] if x.get("R") == "graph"]
        cov["tlc_runs"].append({"cfg": c, "states": r["states"], "graphs": len(gs), "cyclic": sum(1 for g in gs if g["cyclic"])})
        graphs += gs
    cases, meta = [], []
    for g in graphs:
        reals = [("fb", realise_fb(g)), ("struct", realise_struct(g)), ("struct+alias", realise_struct(g, alias=True)),
                 ("mixed-odd-fb", realise_mixed(g, 1)), ("mixed-even-fb", realise_mixed(g, 0)),
                 ("struct-in-context", graphreal.in_context(realise_struct(g))), ("mixed-in-context", graphreal.in_context(realise_mixed(g, 1))),
                 ("fb-arrays-of-instances", realise_fb(g, arrays=True)), ("struct-array-elements", realise_struct(g, arrays=True)),
                 ("fb-lowercase-refs", realise_fb(g, ref="n%d")), ("struct+alias-lowercase-refs", realise_struct(g, alias=True, ref="n%d"))]
        if all(len(outs(g, i)) <= 1 for i in range(1, g["n"] + 1)):
            reals.append(("enum-alias", realise_enum_alias(g)))
            reals.append(("enum-alias-qualified-by-sibling", realise_enum_alias(g, qualified=True)))
        for kind, text in reals:
            cases.append({"id": len(cases), "files": [{"name": "g.st", "text": text}]})
            meta.append((g, kind, text))
    res = vlib.harness("analyze", cases)
    stats = {}
    for (g, kind, text), r in zip(meta, res):
        st = stats.setdefault(kind, {"cyclic": 0, "acyclic": 0})
        st["cyclic" if g["cyclic"] else "acyclic"] += 1
        labels = {"real:" + kind, "nodes:%d" % g["n"], "cyclic" if g["cyclic"] else "acyclic", "shape:" + g.get("shape", "-"),
                  "selfloop" if any(a == b for a, b in g["edges"]) else "noselfloop"}
        replay = {"edges": g["edges"], "realisation": kind, "text": text}
        if "panic" in r or "abort" in r or "timeout" in r:
            rep.add("crash:%s" % ("cpu-budget-exceeded" if "timeout" in r else str(r.get("panic") or "abort")[:50]), labels=labels, detail={"graph": g}, replay=replay)
            continue
        if any(not p["ok"] for p in r.get("parse", [])):
            rep.add("generated-unit-does-not-parse", labels=labels, detail={"parse": r["parse"]}, replay=replay)
            continue
        codes = set(d["code"] for d in r.get("analyze_diags", []))
        said = bool(codes & REC)
        if g["cyclic"] and not said and codes == {"P9999"} and kind in UNSUPPORTED_KINDS:
            # 'capability not implemented' (an alias of a structure type is not supported at all, cyclic or not):
            # the unit is outside what the analyzer claims to handle; counted, not judged.  Only the realisations whose
            # ACYCLIC units get the same answer are excused: anywhere else "not implemented" for a cycle is a cycle that
            # was not reported as recursive (seeded change C07-8: a self-loop of an alias-style declaration)
            st["unsupported"] = st.get("unsupported", 0) + 1
        elif g["cyclic"] and not said:
            what = "accepted" if r.get("analyze_ok") else "other-code:" + ",".join(sorted(codes))
            rep.add("cycle-not-reported-as-recursive:%s:%s" % (kind, what), labels=labels, detail={"graph": g, "codes": sorted(codes)}, replay=replay)
        elif not g["cyclic"] and said:
            rep.add("acyclic-reported-as-recursive:%s" % kind, labels=labels, detail={"graph": g, "codes": sorted(codes)}, replay=replay)
        elif not g["cyclic"] and not r.get("analyze_ok"):
            if codes == {"P9999"} and kind in UNSUPPORTED_KINDS:
                st["unsupported"] = st.get("unsupported", 0) + 1
            else:
                rep.add("acyclic-rejected:%s:%s" % (kind, ",".join(sorted(codes))), labels=labels, detail={"graph": g}, replay=replay)
    # vacuity guard: a realisation that the analyzer mostly answers with "not implemented" decides nothing
    for kind, st in stats.items():
        total = st["cyclic"] + st["acyclic"]
        if kind not in UNSUPPORTED_KINDS and st.get("unsupported", 0) > total // 2:
            raise vlib.ToolError("realisation %s: %d of %d units are answered 'not implemented' (P9999): the realisation is vacuous" % (kind, st["unsupported"], total))
    cov["graphs"] = len(graphs)
    cov["units_analysed"] = len(cases)
    cov["by_realisation"] = stats
    cov["traces_validated_against_impl"] = len(cases)
    cov["samples"].append({"edges": graphs[40]["edges"], "cyclic": graphs[40]["cyclic"], "fb_realisation": realise_fb(graphs[40])[:400]})
    cov["exhaustive"] = tier != "quick"
    cov["rule"] = "all digraphs on <= 3 nodes, all acyclic + 1/16 (quick) or all (thorough) of the 4-node digraphs, 440 random graphs on 8 and 12 nodes, the deep / wide families (chain, ladder, fan, dense; with and without a closing edge) on 16 and 40 nodes; 7-8 realisations each"
    return rep.finish("model_checking", cov, assumptions=["a sink type is a structure with one INT element / an enumeration"])


if __name__ == "__main__":
    vlib.main_wrapper(main)
