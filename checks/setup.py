#!/usr/bin/env python3
"""setup_cmd: build the harness and the real ironplcc binary offline; sanity-check the tool chain."""
import os, subprocess, sys
sys.path.insert(0, os.path.join(os.path.dirname(os.path.abspath(__file__)), "..", "drivers"))
import vlib
def main():
    vlib.build()
    r = subprocess.run(["tla-sany", os.path.join(vlib.SPEC, "Lexer.tla")], capture_output=True, text=True)
    if r.returncode != 0:
        raise vlib.ToolError("SANY failed: " + r.stdout[-2000:])
    print("setup ok")
    return 0
if __name__ == "__main__":
    vlib.main_wrapper(main)
