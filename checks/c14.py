#!/usr/bin/env python3
"""C14 - file encoding is transparent: the result depends only on the decoded text.

 1. Cli.tla (ReadDecode + EncodingTransparent) is model-checked over every assignment of the five encodings
    to three files; TLC emits each (command, arguments, encoding assignment) with the observation the
    specification requires - which has no encoding argument.
 2. spec -> impl: each is run on a disk written in exactly those encodings (the texts carry non-ASCII
    characters in comments and strings *before* the planted fault on the same line, so positions are
    sensitive); exit / OK / (code, file) must equal the specification's, and the located diagnostics
    (line:col) must be identical across all encoding assignments of the same invocation.
 3. byte sweep: every byte 0x00-0xFF in a comment, in a string, between tokens and inside an identifier
    (1024 files): never a crash, the C13 contract holds, every position lies inside the decoded text, and
    where the decoded character is neutral in its context (Lexer.tla classes) the file is still OK.
 4. seeded random binary files.
 5. the language server: a workspace folder stored in each of the five encodings, every history of Lsp.tla over
    didOpen / didChange / didClose / semantic-token requests (MC_Lsp_encws*.cfg: workspace contents x messages) - the
    traffic (published codes and positions, token data) must be identical whatever the encoding of the files on disk.
"""
import os
import random
import sys
from concurrent.futures import ThreadPoolExecutor

sys.path.insert(0, os.path.join(os.path.dirname(os.path.abspath(__file__)), "..", "drivers"))
import clidrv  # noqa: E402
import vlib  # noqa: E402

NA = "éüß"   # é ü ß : cp1252-encodable, and their cp1252 bytes followed by ASCII are not valid UTF-8

TEXTS = {
    "v1": ("(* café \u20ac \u2122 \u2026 *) TYPE LEVEL_V1 : (LOW_V1, HIGH_V1) := LOW_V1; END_TYPE\nFUNCTION_BLOCK FB_V1\n"
           "VAR a : INT; b : INT; s : STRING := 'über \u20ac'; END_VAR\n(* ß \u201c \u201d *) a := b + 1; (* é *)\nEND_FUNCTION_BLOCK\n"),
    "s1": ("FUNCTION_BLOCK FB_S1\nVAR a : INT; b : INT; s : STRING := 'grüß'; END_VAR\n"
           "(* ééé \u20ac\u2122 *) s := 'ü\u2013'; a := c + 1;\nEND_FUNCTION_BLOCK\n"),
    "l1": ("FUNCTION_BLOCK FB_L1\nVAR a : INT; b : INT; END_VAR\n(* été *) a := b ? 1;\nEND_FUNCTION_BLOCK\n"),
}
# s1 has a name without the usual extension: `check <directory>` reads every entry of the directory, whatever it is called
ENC_DISK = {"dirof": {"v1": "dA", "s1": "dA", "l1": "dA"}, "classof": {"v1": "V", "s1": "S", "l1": "L"}, "provider": {}, "ext": {"s1": ".exp"},
            "dirs": ["dA"], "baddirs": []}

C1 = {0x81, 0x8d, 0x8f, 0x90, 0x9d}


def decode_like_cli(b):
    """BOM sniffing, UTF-8, then Windows-1252 (WHATWG: the five unassigned bytes map to C1 controls)"""
    if b.startswith(b"\xef\xbb\xbf"):
        try:
            return b[3:].decode("utf-8")
        except UnicodeDecodeError:
            # encoding_rs `decode` sniffs the mark for EVERY decoder of the cascade (source.rs), so after a UTF-8 mark the
            # content is only ever read as UTF-8: invalid content is answered P0028, there is no decoded text to predict
            return None
    elif b.startswith(b"\xff\xfe") or b.startswith(b"\xfe\xff"):
        return None   # UTF-16 with possibly broken content: decoded text not predicted, only totality is checked
    else:
        try:
            return b.decode("utf-8")
        except UnicodeDecodeError:
            pass
    return "".join(chr(x) if x in C1 else bytes([x]).decode("cp1252") for x in b)


def positions_in_range(located, text):
    if text is None:
        return True
    lines = text.split("\n")
    for code, f, ln, col in located:
        if ln is None:
            continue
        if ln < 1 or ln > len(lines):
            return False
        if col < 1 or col > len(lines[ln - 1].encode("utf-8")) + 1:
            return False
    return True


def contract(o):
    if o["timeout"]:
        return "hang"
    if o["rc"] not in (0, 1):
        return "crash:rc=%s" % o["rc"]
    if (o["rc"] == 0) != o["ok"]:
        return "exit-vs-OK"
    if o["rc"] != 0 and o["ndiag"] == 0:
        return "failure-without-coded-diagnostic"
    return None


def part_enc(rep, cov, tier):
    r = vlib.tlc_check("MC_Cli.tla", "MC_Cli_enc.cfg", workers=8)
    cov["states"] += r["states"]
    cov["transitions"] += r["transitions"]
    cov["tlc_runs"].append({"cfg": "MC_Cli_enc.cfg", "states": r["states"], "behaviours": len(r["replay"])})
    wd = vlib.workdir("c14")
    disks = {}
    jobs = []
    for b in r["replay"]:
        ek = tuple(sorted(b["enc"].items()))
        if ek not in disks:
            root = os.path.join(wd, "disk%d" % len(disks))
            clidrv.make_disk(root, ENC_DISK, TEXTS, dict(ek))
            disks[ek] = root
        jobs.append((b, disks[ek]))
    if tier == "quick":
        # all 125 assignments for check of the directory and of each file; a third of the rest
        jobs = [j for i, j in enumerate(jobs) if j[0]["cmd"] == "check" or i % 3 == 0]
    with ThreadPoolExecutor(max_workers=vlib.NCPU) as ex:
        obs = list(ex.map(lambda j: clidrv.run(j[1], j[0]["cmd"], j[0]["args"], ENC_DISK), jobs))
    by_inv = {}
    for (b, root), o in zip(jobs, obs):
        labels = {b["cmd"]} | set("enc:" + e for e in b["enc"].values())
        exp = (b["exit"], b["ok"], sorted(tuple(d) for d in b["diags"]))
        got = (o["rc"], o["ok"], [tuple(d) for d in o["diags"]])
        bad = (got[:2] != exp[:2]) or (b["cmd"] == "check" and got[2] != exp[2])
        if bad:
            which = sorted(set(b["enc"][f] for f in b["enc"]))
            rep.add("encoding:spec-vs-impl:%s" % b["cmd"], labels=labels,
                    detail={"args": b["args"], "enc": b["enc"], "expected": exp, "observed": o},
                    replay={"cmd": b["cmd"], "args": b["args"], "enc": b["enc"]})
        by_inv.setdefault((b["cmd"], tuple(b["args"])), []).append((b["enc"], o))
    for (cmd, args), members in by_inv.items():
        ref_enc, ref = members[0]
        for enc, o in members[1:]:
            if cmd == "tokenize" and ref["rc"] != 0:
                same = o["rc"] == ref["rc"]
            else:
                same = (o["rc"], o["ok"], o["located"]) == (ref["rc"], ref["ok"], ref["located"])
            # what is printed for a valid set (the echoed program, the token table with its Ln / Col) is a function of
            # the decoded text as well
            if same and cmd in ("echo", "tokenize") and ref["rc"] == 0 and o["stdout_sha"] != ref["stdout_sha"]:
                same = False
            if not same:
                diff = sorted(e for f, e in enc.items() if ref_enc[f] != e)
                rep.add("encoding:positions-or-verdict-differ:%s" % cmd, labels={cmd} | set("enc:" + e for e in diff),
                        detail={"args": list(args), "a": {"enc": ref_enc, "obs": ref}, "b": {"enc": enc, "obs": o}},
                        replay={"cmd": cmd, "args": list(args), "enc_a": ref_enc, "enc_b": enc})
                break
    cov["encoding_runs"] = len(jobs)
    cov["encoding_assignments"] = len(disks)
    cov["traces_validated_against_impl"] += len(jobs)
    cov["samples"].append({"cmd": jobs[7][0]["cmd"], "args": jobs[7][0]["args"], "enc": jobs[7][0]["enc"],
                           "expected": [jobs[7][0]["exit"], jobs[7][0]["ok"], jobs[7][0]["diags"]]})


PRE = b"FUNCTION_BLOCK FB\nVAR a : INT; b : INT; s : STRING := 'q'; END_VAR\n"
POST = b"\nEND_FUNCTION_BLOCK\n"


def sweep_file(ctx, byte):
    bb = bytes([byte])
    if ctx == "comment":
        return PRE + b"a := b + 1; (* x " + bb + b" y *)" + POST
    if ctx == "string":
        return PRE + b"s := 'x" + bb + b"y'; a := b + 1;" + POST
    if ctx == "between":
        return PRE + b"a :=" + bb + b"b + 1;" + POST
    if ctx == "identifier":
        return (b"FUNCTION_BLOCK FB\nVAR a" + bb + b"z : INT; b : INT; END_VAR\n" + b"a" + bb + b"z := b + 1;" + POST)
    if ctx == "eof":            # the very last byte of the file, nothing after it
        return PRE + b"a := b + 1;" + POST + bb
    if ctx == "eof-comment":    # the last byte of the file lies inside a comment that is closed nowhere
        return PRE + b"a := b + 1;" + POST + b"(* caf" + bb
    raise ValueError(ctx)


def neutral(ctx, byte):
    """must the file still be OK?  (class of the decoded character in its context, Lexer.tla)"""
    ch = bytes([byte])
    if ctx == "comment":
        return True                      # any character except the closing '*)' pair is comment text
    if ctx == "string":
        return byte != 0x27              # any character except the closing quote
    if ctx == "between":
        return byte in (0x20, 0x09, 0x0a, 0x0c)   # Blank / LF / FF classes; a lone CR is no lexeme
    if ctx == "identifier":
        return ch.isalnum() and byte < 0x80 or byte == 0x5f
    if ctx == "eof":
        return byte in (0x20, 0x09, 0x0a, 0x0c)
    return False


def part_sweep(rep, cov, tier):
    wd = vlib.workdir("c14_sweep")
    jobs = []
    for ctx in ("comment", "string", "between", "identifier", "eof", "eof-comment"):
        for byte in range(256):
            d = os.path.join(wd, "%s_%02x" % (ctx, byte))
            os.makedirs(d)
            content = sweep_file(ctx, byte)
            with open(os.path.join(d, "f.st"), "wb") as fh:
                fh.write(content)
            jobs.append((ctx, byte, d, content))
    rng = random.Random(vlib.SEED)
    nrand = 200 if tier == "quick" else 5000
    for k in range(nrand):
        n = rng.choice([0, 1, 2, 3, 7, 64, 500, 4000]) if k % 10 else rng.randrange(65536)
        content = bytes(rng.getrandbits(8) for _ in range(n))
        if k % 3 == 0:
            content = rng.choice([b"\xef\xbb\xbf", b"\xff\xfe", b"\xfe\xff", b""]) + content
        if k % 4 == 0:   # mostly-text with a few random bytes
            base = bytearray(PRE + b"a := b + 1;" + POST)
            for _ in range(rng.randrange(1, 4)):
                base[rng.randrange(len(base))] = rng.getrandbits(8)
            content = bytes(base)
        d = os.path.join(wd, "rand_%d" % k)
        os.makedirs(d)
        with open(os.path.join(d, "f.st"), "wb") as fh:
            fh.write(content)
        jobs.append(("random", k, d, content))
    disk = {"dirof": {}, "classof": {}, "provider": {}, "dirs": [], "baddirs": []}

    def one(j):
        ctx, byte, d, content = j
        oc, ot = clidrv.run(d, "check", ["f.st"], disk), clidrv.run(d, "tokenize", ["f.st"], disk)
        # the same TEXT (as the documented cascade decodes the bytes) stored as plain UTF-8: the result must be the same
        text = decode_like_cli(content)
        twin = None
        if text is not None and not text.startswith("\ufeff"):
            tb = text.encode("utf-8")
            if tb != content:
                d2 = d + "_utf8"
                os.makedirs(d2, exist_ok=True)
                with open(os.path.join(d2, "f.st"), "wb") as fh:
                    fh.write(tb)
                twin = (clidrv.run(d2, "check", ["f.st"], disk), clidrv.run(d2, "tokenize", ["f.st"], disk))
        return oc, ot, twin

    with ThreadPoolExecutor(max_workers=vlib.NCPU) as ex:
        obs = list(ex.map(one, jobs))
    n_ok = 0
    n_twin = 0
    for (ctx, byte, d, content), (oc, ot, twin) in zip(jobs, obs):
        labels = {"sweep:" + ctx}
        if twin is not None:
            n_twin += 1
            tc, tt = twin
            if (oc["rc"], oc["ok"], oc["located"]) != (tc["rc"], tc["ok"], tc["located"]) or \
                    (ot["rc"], ot["located"]) != (tt["rc"], tt["located"]) or (ot["rc"] == 0 and ot["stdout_sha"] != tt["stdout_sha"]):
                rep.add("bytes:%s:differs-from-the-same-text-in-utf8" % ctx, labels=labels,
                        detail={"byte": byte, "file": {"check": oc["located"], "rc": oc["rc"], "tokenize_rc": ot["rc"]},
                                "utf8_twin": {"check": tc["located"], "rc": tc["rc"], "tokenize_rc": tt["rc"]}},
                        replay={"context": ctx, "byte": byte if ctx != "random" else None, "file_hex": content.hex()[:4000], "cmd": "ironplcc check f.st"})
        rp = {"context": ctx, "byte": byte if ctx != "random" else None, "file_hex": content.hex()[:4000], "cmd": "ironplcc check f.st"}
        sig = contract(oc)
        if sig:
            rep.add("bytes:%s:check:%s" % (ctx, sig), labels=labels, detail={"observed": oc}, replay=rp)
        if ot["timeout"] or ot["rc"] not in (0, 1):
            rep.add("bytes:%s:tokenize:crash" % ctx, labels=labels, detail={"observed": ot}, replay=rp)
        text = decode_like_cli(content)
        if not positions_in_range(oc["located"], text) or not positions_in_range(ot["located"], text):
            rep.add("bytes:%s:position-outside-decoded-text" % ctx, labels=labels,
                    detail={"check": oc["located"], "tokenize": ot["located"]}, replay=rp)
        if ctx != "random" and neutral(ctx, byte):
            n_ok += 1
            if not (oc["rc"] == 0 and oc["ok"]):
                rep.add("bytes:%s:neutral-character-changes-verdict" % ctx, labels=labels,
                        detail={"byte": byte, "observed": oc}, replay=rp)
    cov["byte_sweep_files"] = 256 * 6
    cov["byte_sweep_utf8_twins_compared"] = n_twin
    cov["byte_sweep_must_stay_ok"] = n_ok
    cov["random_binary_files"] = nrand
    cov["traces_validated_against_impl"] += len(jobs) * 2


def part_size(rep, cov, tier):
    """Encoding transparency must not depend on WHERE in the file a multi-byte sequence lies: the same program, padded
    by an ASCII comment so that a run of 2-, 3- and 4-byte characters (a surrogate pair in UTF-16) crosses byte offset
    B for the usual buffer sizes B, in every encoding; the verdict, the code and line:col of the planted fault must be
    those computed from the decoded text."""
    bounds = [512, 1024, 4096, 8192] if tier == "quick" else [256, 512, 1024, 2048, 4096, 8192, 16384, 32768, 65536]
    run_u = "\u00e9\u20ac\U0001F600" * 12            # é € 😀
    run_1252 = "\u00e9\u20ac\u00fc\u00df" * 12        # é € ü ß  (all Windows-1252)
    wd = vlib.workdir("c14_size")
    jobs = []
    for enc in ("utf8", "utf8bom", "utf16le", "utf16be", "cp1252"):
        run = run_1252 if enc == "cp1252" else run_u
        for B in bounds:
            for k in range(8 if tier == "quick" else 16):
                # prefix bytes before the run = B - 20 + k  in this encoding
                head = "(*"
                tail = "*)\n(* " + run + " *) FUNCTION_BLOCK FB_SZ VAR a : INT; b : INT; END_VAR a := " + "c_undeclared" + " + 1; END_FUNCTION_BLOCK\n"
                unit = 2 if enc.startswith("utf16") else 1
                bom = {"utf8bom": 3, "utf16le": 2, "utf16be": 2}.get(enc, 0)
                fixed = bom + unit * (len(head) + len("*)\n(* "))
                npad = max(0, (B - 20 + k - fixed) // unit)
                text = head + "x" * npad + tail
                jobs.append((enc, B, k, text))

    def one(j):
        enc, B, k, text = j
        p = os.path.join(wd, "%s_%d_%d.st" % (enc, B, k))
        with open(p, "wb") as f:
            f.write(clidrv.encode(text, enc))
        r = vlib.run_cli(["check", p])
        return r["rc"], sorted((c, ln, col) for c, f_, ln, col in vlib.parse_cli_diags(r["stderr"]) if f_ is not None), r["stderr"][-600:]

    with ThreadPoolExecutor(max_workers=vlib.NCPU) as ex:
        outs = list(ex.map(one, jobs))
    for (enc, B, k, text), (rc, located, err) in zip(jobs, outs):
        line2 = text.split("\n")[1]
        want = [("P0015", 2, line2.index("c_undeclared") + 1)]
        if rc != 1 or located != want:
            rep.add("size:result-depends-on-position-of-multibyte-sequence:%s" % ("verdict-or-code" if rc != 1 or [x[0] for x in located] != ["P0015"] else "position"),
                    labels={"enc:" + enc, "size"}, detail={"encoding": enc, "boundary": B, "k": k, "expected": want, "rc": rc, "observed": located, "stderr": err},
                    replay={"file_hex": clidrv.encode(text, enc).hex()[:8000], "cmd": "ironplcc check <file>"})
    cov["size_runs"] = len(jobs)
    cov["size_boundaries"] = bounds
    cov["traces_validated_against_impl"] += len(jobs)


LSP_TEXTS = {
    # 1: a library with non-ASCII text in comments and strings;  2: a user of it with a fault AFTER non-ASCII text on its line
    1: ("(* Z\u00e4hler \u20ac \u2122 *) TYPE LEVEL : (LOW, HIGH) := LOW; END_TYPE\nFUNCTION_BLOCK Counter\n"
        "VAR n : INT; s : STRING := 'gr\u00fc\u00df \u20ac'; END_VAR\n(* \u00e9t\u00e9 \u201c\u201d *) n := n + 1;\nEND_FUNCTION_BLOCK\n"),
    2: ("FUNCTION_BLOCK User\nVAR c : Counter; l : LEVEL := HIGH; k : INT; END_VAR\n"
        "(* \u00fcber \u20ac\u2026 *) k := missing + 1;\nEND_FUNCTION_BLOCK\n"),
}


def part_lsp(rep, cov, tier):
    import lspdrv
    cfg = "MC_Lsp_encws2.cfg" if tier == "quick" else "MC_Lsp_encws3.cfg"
    r = vlib.tlc_check("Lsp.tla", cfg, workers=8, timeout=3600)
    cov["states"] += r["states"]
    cov["transitions"] += r["transitions"]
    replays = [x for x in r["replay"] if x.get("R") == "lsp"]
    cov["tlc_runs"].append({"cfg": cfg, "states": r["states"], "behaviours": len(replays)})
    encs = ["utf8", "utf8bom", "utf16le", "utf16be", "cp1252"]
    wd = vlib.workdir("c14_lsp")

    def run(item):
        i, rp = item
        obs = []
        for e in encs:
            d = os.path.join(wd, "w%d_%s" % (i, e))
            os.makedirs(d, exist_ok=True)
            for u, t in enumerate(rp["hist"][0]["d"], start=1):
                if t != 0:
                    with open(os.path.join(d, lspdrv.fname(u)), "wb") as f:
                        f.write(clidrv.encode(LSP_TEXTS[t], e))
            res = lspdrv.run_server(lspdrv.concretize(rp["hist"], LSP_TEXTS), workspace=d)
            obs.append((res["rc"], lspdrv.observe(res["frames"])))
            import shutil
            shutil.rmtree(d, ignore_errors=True)
        return obs

    with ThreadPoolExecutor(max_workers=vlib.NCPU) as ex:
        results = list(ex.map(run, enumerate(replays)))
    kinds = set()
    for rp, obs in zip(replays, results):
        kinds |= set(m["k"] for m in rp["hist"])
        for e, o in zip(encs[1:], obs[1:]):
            if o != obs[0]:
                what = "exit-status" if o[0] != obs[0][0] else "traffic"
                rep.add("lsp:workspace-encoding-changes-%s:%s" % (what, e), labels={"lsp", "enc:" + e} | set(m["k"] for m in rp["hist"]),
                        detail={"history": rp["hist"], "utf8": obs[0], e: o},
                        replay={"history": rp["hist"], "texts": {str(k): v for k, v in LSP_TEXTS.items()}, "disk": rp["hist"][0]["d"], "encoding": e})
                break
    cov["lsp_histories"] = len(replays)
    cov["lsp_server_runs"] = len(replays) * len(encs)
    cov["lsp_message_kinds"] = sorted(kinds)
    cov["traces_validated_against_impl"] += len(replays) * len(encs)


def main():
    tier = sys.argv[1] if len(sys.argv) > 1 else vlib.TIER
    vlib.TIER = tier
    vlib.build()
    rep = vlib.Report("C14")
    cov = {"states": 0, "transitions": 0, "traces_validated_against_impl": 0, "samples": [], "tlc_runs": []}
    part_enc(rep, cov, tier)
    part_sweep(rep, cov, tier)
    part_size(rep, cov, tier)
    part_lsp(rep, cov, tier)
    cov["exhaustive"] = True
    cov["rule"] = ("all 125 assignments of 5 encodings to 3 files x invocations; every byte value in 4 contexts; random binary files; "
                   "every workspace content x message history of the language-server model in all 5 encodings")
    return rep.finish("model_checking", cov, assumptions=[
        "the encoders are Python codecs; Windows-1252 variants contain byte sequences that are not valid UTF-8, otherwise the cascade is ambiguous by design",
        "'inside the decoded text' is evaluated on a Python re-implementation of the documented cascade (BOM, UTF-8, Windows-1252)"])


if __name__ == "__main__":
    vlib.main_wrapper(main)
