#!/usr/bin/env python3
"""C05 - every reported position points at the text it is about.

 (a) Lexer.tla is model-checked (Tiling, LineColDecl, Total, codec invariants) over all class strings of
     several alphabets; every behaviour TLC finds is replayed into tokenize_program (spec -> impl): same
     lexeme boundaries and kinds, same line, column in one of the three units.
 (b) token streams of real / mutated / random texts are recorded and validated by LexerTrace.tla (impl -> spec).
 (c) identifiers of parsed libraries and diagnostic labels (positions.py, shares the Grammar / Unit generators).
"""
import json
import os
import random
import re
import sys
from concurrent.futures import ThreadPoolExecutor

sys.path.insert(0, os.path.join(os.path.dirname(os.path.abspath(__file__)), "..", "drivers"))
import corpus  # noqa: E402
import lexcheck  # noqa: E402
import vlib  # noqa: E402


def part_a(rep, cov, tier):
    cfgs = ["A4", "B4", "C4", "D4", "E5c"] if tier == "quick" else ["A5", "B6", "C5", "D5", "E6c"]
    per = max(2, vlib.NCPU // len(cfgs))
    with ThreadPoolExecutor(max_workers=len(cfgs)) as ex:
        runs = list(ex.map(lambda c: vlib.tlc_check("Lexer.tla", "MC_Lexer_%s.cfg" % c, workers=per,
                                                      coverage=(c in ("B4",)), timeout=7200), cfgs))
    rng = random.Random(vlib.SEED)
    by_text = {}
    for c, r in zip(cfgs, runs):
        cov["states"] += r["states"]
        cov["transitions"] += r["transitions"]
        cov["tlc_runs"].append({"cfg": "MC_Lexer_%s.cfg" % c, "states": r["states"], "behaviours": len(r["replay"]),
                                "wall_s": round(r["wall_s"], 1)})
        if r["coverage"]:
            for act in ("ScanToken",):
                if r["coverage"].get(act, 0) == 0:
                    raise vlib.ToolError("action %s never taken in %s" % (act, c))
        for b in r["replay"]:
            if b.get("R") != "lex":
                continue
            by_text.setdefault(tuple(b["text"]), []).append(b["toks"])
    cases, meta = [], []
    for classes, behaviours in by_text.items():
        t1 = lexcheck.concretize(classes)
        cases.append({"id": len(cases), "text": t1})
        meta.append((classes, behaviours, t1))
        t2 = lexcheck.concretize(classes, rng)
        if t2 != t1 and lexcheck.text_is_safe(t2):
            cases.append({"id": len(cases), "text": t2})
            meta.append((classes, behaviours, t2))
    res = vlib.harness("lex", cases)
    kinds_seen = set()
    for (classes, behaviours, text), r in zip(meta, res):
        for b in behaviours:
            for t in b:
                kinds_seen.add(t[0])
        errs = [lexcheck.compare_behaviour(text, b, r) for b in behaviours]
        if None in errs:
            continue
        ctx = lexcheck.mismatch_context(behaviours[0], r, text)
        rep.add("lex-replay:%s:after=%s" % (errs[0], ctx), labels={"lexer"},
                detail={"classes": list(classes), "expected_one_of": behaviours,
                        "observed": lexcheck.impl_lexemes(r) if "toks" in r else r},
                replay={"cmd": "echo '%s' | build/target/debug/vph lex" % json.dumps({"id": 0, "text": text}),
                        "text": text})
    cov["behaviours_replayed"] = len(cases)
    cov["distinct_texts"] = len(by_text)
    cov["lexeme_kinds_exercised"] = sorted(kinds_seen)
    if cases:
        cov["samples"].append({"classes": list(meta[len(meta) // 2][0]), "text": meta[len(meta) // 2][2],
                               "expected": meta[len(meta) // 2][1][0]})


def part_b(rep, cov, tier):
    rng = random.Random(vlib.SEED + 1)
    texts = []
    base = corpus.repo_sources()
    nvar = 2 if tier == "quick" else 12
    for name, t in base:
        texts.append((name, t))
        for k in range(nvar):
            texts.append(("%s#triv%d" % (name, k), corpus.mutate_trivia(t, rng, n=8)))
            texts.append(("%s#inv%d" % (name, k), corpus.mutate_trivia(t, rng, n=6, invalid=True)))
        texts.append((name + "#oscat", corpus.OSCAT + "\n" + t))
        texts.append((name + "#oscatcrlf", corpus.OSCAT.replace("\n", "\r\n") + "\r\n" + t))
        cut = rng.randrange(1, max(2, len(t)))
        texts.append((name + "#cut", t[:cut]))
    nsoup = 150 if tier == "quick" else 3000
    for k in range(nsoup):
        texts.append(("soup%d" % k, corpus.soup(rng, rng.randrange(1, 60))))
        texts.append(("bytes%d" % k, corpus.random_bytes_text(rng, rng.randrange(1, 200))))
    cases = [{"id": i, "text": t} for i, (_, t) in enumerate(texts)]
    res = vlib.harness("lex", cases)
    # record traces, validate in parallel chunks
    nchunks = 8 if tier == "quick" else 16
    wd = vlib.workdir("c05_trace")
    paths = []
    events = 0
    crashed = []
    files = [open(os.path.join(wd, "t%d.ndjson" % k), "w") for k in range(nchunks)]
    for i, ((name, t), r) in enumerate(zip(texts, res)):
        if "toks" not in r:
            crashed.append(i)
            continue
        f = files[i % nchunks]
        for e in lexcheck.trace_events(t, r, i):
            f.write(json.dumps(e) + "\n")
            events += 1
    for f in files:
        f.close()
        paths.append(f.name)
    for i in crashed:
        rep.add("lex-crash", labels={"lexer"}, detail={"result": res[i]}, replay={"text": texts[i][1], "name": texts[i][0]})
    with ThreadPoolExecutor(max_workers=nchunks) as ex:
        vals = list(ex.map(lambda p: vlib.tlc_trace("LexerTrace.tla", "LexerTrace.cfg", p), paths))
    nbad = 0
    for v in vals:
        cov["states"] += v["states"]
        cov["transitions"] += v["transitions"]
        for tid, recno in v["bad"]:
            nbad += 1
            name, t = texts[tid]
            kind = name.split("#")[-1].rstrip("0123456789") if "#" in name else name.rstrip("0123456789")
            rep.add("lex-trace-rejected", labels={"lexer", kind},
                    detail={"text_name": name, "first_unmatched_record": recno},
                    replay={"text": t, "cmd": "vph lex + LexerTrace.tla"})
    tokenize_tables(rep, cov, texts, res, tier)
    cov["traces_validated_against_impl"] += len(texts) - len(crashed)
    cov["trace_events"] = events
    cov["trace_rejected"] = nbad
    cov["samples"].append({"trace_text": texts[1][0], "first_events": lexcheck.trace_events(texts[1][1], res[1], 1)[:4]})


TOKEN_LINE = re.compile(r"^Type: (\w+), Value: '(.*)', At: Ln (\d+),Col (\d+)$", re.S)


def tokenize_tables(rep, cov, texts, res, tier):
    """`ironplcc tokenize <file>` prints one line per token: type, text, line and column.  For every text of the trace
    corpus the printed table must be the token stream that LexerTrace.tla has just validated (the positions a user sees on
    the terminal are the positions of the specification)."""
    wd = vlib.workdir("c05_tokenize")
    jobs = []
    step = 1 if tier != "quick" else 2
    for i, ((name, t), r) in enumerate(zip(texts, res)):
        if "toks" not in r or i % step:
            continue
        if "\r" in t.replace("\r\n", ""):
            continue      # a lone CR is rewritten by no one, but the table is split on line ends: skipped
        p = os.path.join(wd, "t%d.st" % i)
        with open(p, "w", encoding="utf-8", newline="") as f:
            f.write(t)
        jobs.append((i, p))

    def run(j):
        return vlib.run_cli(["tokenize", j[1]], timeout=120)

    with ThreadPoolExecutor(max_workers=vlib.NCPU) as ex:
        outs = list(ex.map(run, jobs))
    n = 0
    for (i, p), o in zip(jobs, outs):
        name, t = texts[i]
        want = [(x[0], x[5].replace("\n", "\\n").replace("\r", "\\r"), x[3], x[4]) for x in res[i]["toks"]]
        out = o["stdout"]
        # the table ends before "Number of errors" / "OK"
        body = out.split("\nNumber of errors")[0]
        if body.endswith("\nOK\n") or body == "OK\n":
            body = body[:-3]
        lines = [ln for ln in re.split(r"\n(?=Type: \w+, Value: ')", body.strip("\n")) if ln]
        got = []
        bad = None
        for ln in lines:
            m = TOKEN_LINE.match(ln)
            if not m:
                bad = ln[:80]
                break
            got.append((m.group(1), m.group(2), int(m.group(3)), int(m.group(4))))
        n += 1
        sig = None
        if o.get("timeout") or o["rc"] not in (0, 1):
            sig = "crash"
        elif bad is not None and want:
            sig = "unreadable-line"
        elif len(got) != len(want):
            sig = "token-count"
        else:
            for g, w in zip(got, want):
                if g != w:
                    sig = "kind" if g[0] != w[0] else ("text" if g[1] != w[1] else ("line" if g[2] != w[2] else "column"))
                    break
        if sig:
            kind = name.split("#")[-1].rstrip("0123456789") if "#" in name else name.rstrip("0123456789")
            rep.add("tokenize-table-differs-from-token-stream:%s" % sig, labels={"lexer", "tokenize", kind},
                    detail={"text_name": name, "printed": got[:5], "expected": want[:5], "unreadable": bad, "rc": o["rc"]},
                    replay={"text": t, "cmd": "ironplcc tokenize <file>"})
        os.unlink(p)
    cov["tokenize_tables_compared"] = n


def main():
    tier = sys.argv[1] if len(sys.argv) > 1 else vlib.TIER
    vlib.TIER = tier
    vlib.build()
    rep = vlib.Report("C05")
    cov = {"states": 0, "transitions": 0, "traces_validated_against_impl": 0, "samples": [], "tlc_runs": []}
    part_a(rep, cov, tier)
    part_b(rep, cov, tier)
    try:
        import positions
        positions.run(rep, cov, tier)
    except ImportError:
        cov["part_c"] = "not built yet"
    cov["exhaustive"] = True
    cov["rule"] = ("(a) every class string up to the configured length over 4 alphabets, each behaviour of Lexer.tla replayed; "
                   "(b) repository sources x trivia / invalid-character / truncation mutants + token soup + random bytes, "
                   "validated by LexerTrace.tla")
    return rep.finish("model_checking", cov, assumptions=[
        "class -> character concretisation and slice facts (LF count, last-line length) are computed by the Python driver",
        "column unit: bytes, scalar values or UTF-16 units are all accepted (the property does not fix the unit)",
        "extent of a lexical error is taken from the implementation (the property does not constrain it)"])


if __name__ == "__main__":
    vlib.main_wrapper(main)
