#!/usr/bin/env python3
"""C02 - the check verdict agrees with the documented semantic rules, in both directions.

Unit.tla states every documented rule as a predicate over abstract compilation units and is model-checked
(BaseValid, GrowPreservesValid, PlantSound, SingleFaultIsSingle).  TLC enumerates the base unit, every
validity-preserving growth and every planted fault (each rule's documented 'Fails' shape at every applicable
site), up to MaxEdits edits, and prints each unit with Violated(u) and the published problem codes.
Every unit is made concrete, analysed by the real pipeline (stages::analyze on the parsed library and
Project::semantic) and the verdict compared:
   Violated = {}   =>  Ok           (a rule's code on a valid unit is a violation; a pure P9999 answer is
                                     'capability not implemented' and is counted, not judged)
   Violated = {r}  =>  Err and one of Code(r) among the reported codes
   |Violated| >= 2 =>  Err
"""
import os
import sys

sys.path.insert(0, os.path.join(os.path.dirname(os.path.abspath(__file__)), "..", "drivers"))
import scopetrace  # noqa: E402
import unitgen  # noqa: E402
import vlib  # noqa: E402


def labels_of(rec):
    labs = set()
    for e in rec["edits"]:
        labs.add(e[0])
        labs.add(":".join(str(x) for x in e))
    for r in rec["violated"]:
        labs.add("rule:" + r)
    return labs


def judge(rec, r):
    """returns None or signature"""
    if "panic" in r or "abort" in r or "timeout" in r:
        return "crash:%s" % str(r.get("panic") or r.get("abort") or "timeout")[:60]
    if any(not p["ok"] for p in r.get("parse", [])):
        return "generated-unit-does-not-parse"       # a generator problem or a parser defect: surfaces either way
    viol = rec["violated"]
    codes = sorted(set(d["code"] for d in r.get("analyze_diags", [])))
    ok = r.get("analyze_ok")
    pr = r.get("project")
    if pr is not None and pr["ok"] != ok:
        return "project-semantic-disagrees-with-analyze"
    if not viol:
        if ok:
            return None
        if codes == ["P9999"]:
            return "UNSUPPORTED"
        return "valid-unit-rejected:%s" % ",".join(codes)
    if ok:
        return "faulty-unit-accepted:%s" % ",".join(sorted(viol))
    if len(viol) == 1:
        want = rec["codes"][viol[0]]
        if not set(want) & set(codes):
            if codes == ["P9999"]:
                return "UNSUPPORTED"
            return "wrong-code:%s:reported=%s" % (viol[0], ",".join(codes))
    return None


def apalache_scope():
    """thorough tier only, reported and never gating: the scoping invariants of Scope.tla as an INDUCTIVE invariant
    (spec/ScopeInd.tla, Apalache: Init => IndInv, IndInv /\\ Next => IndInv') - for walks of any length"""
    import shutil
    import subprocess
    if not shutil.which("apalache-mc"):
        return "apalache-mc not found"
    wd = vlib.workdir("c02_apalache")
    shutil.copy(os.path.join(vlib.SPEC, "ScopeInd.tla"), wd)
    out = []
    for args in (["--init=Init", "--length=0"], ["--init=IndInit", "--length=1"]):
        try:
            r = subprocess.run(["apalache-mc", "check", "--cinit=ConstInit", "--inv=IndInv"] + args + ["ScopeInd.tla"], cwd=wd,
                               capture_output=True, text=True, timeout=900)
            out.append("NoError" if "The outcome is: NoError" in r.stdout else "outcome: " + (r.stdout[-200:] or r.stderr[-200:]))
        except subprocess.TimeoutExpired:
            out.append("timeout")
    shutil.rmtree(os.path.join(wd, "_apalache-out"), ignore_errors=True)
    return {"base_case": out[0], "inductive_step": out[1]}


def main():
    tier = sys.argv[1] if len(sys.argv) > 1 else vlib.TIER
    vlib.TIER = tier
    vlib.build()
    rep = vlib.Report("C02")
    cov = {"states": 0, "transitions": 0, "traces_validated_against_impl": 0, "samples": [], "tlc_runs": []}
    cfg = "MC_Unit_2gp.cfg" if tier == "quick" else "MC_Unit_2.cfg"
    r = vlib.tlc_check("Unit.tla", cfg, workers=vlib.NCPU, timeout=7200)
    cov["states"] += r["states"]
    cov["transitions"] += r["transitions"]
    recs = [x for x in r["replay"] if x.get("R") == "unit"]
    cov["tlc_runs"].append({"cfg": cfg, "states": r["states"], "units": len(recs), "wall_s": round(r["wall_s"], 1)})
    cases = []
    for i, rec in enumerate(recs):
        text, _ = unitgen.render(rec["unit"])
        cases.append({"id": i, "files": [{"name": "unit.st", "text": text}], "project": i % 5 == 0})
    res = vlib.harness("analyze", cases)
    n_unsup = 0
    rules_hit, rules_ok = set(), set()
    for rec, c, rr in zip(recs, cases, res):
        sig = judge(rec, rr)
        for v in rec["violated"]:
            rules_hit.add(v)
        if sig == "UNSUPPORTED":
            n_unsup += 1
            # the units are enumerated by TLC (no random choice) and none of them - 48 000 in the quick tier, 209 324 in the
            # thorough tier, measured in the fourth session - is answered 'not implemented' on the pinned commit + fixes, so
            # P9999 in place of a verdict is judged like any other wrong answer (the same excuse hid seeded change C07-8 in C07)
            sig = ("valid-unit-rejected:P9999" if not rec["violated"] else "wrong-code:%s:reported=P9999" % rec["violated"][0])
        if sig:
            rep.add(sig, labels=labels_of(rec),
                    detail={"edits": rec["edits"], "violated": rec["violated"], "expected_codes": rec["codes"],
                            "reported": [(d["code"], d["primary"]["msg"][:80]) for d in rr.get("analyze_diags", [])],
                            "parse": rr.get("parse")},
                    replay={"text": c["files"][0]["text"], "cmd": "vph analyze"})
    # implementation -> specification: the symbol table operations of every analysis (guarded hook in symbol_table.rs) are
    # validated against Scope.tla: declarations only inside a declaration's scope, look-ups see exactly the visible names,
    # every scope is left again, nothing stays behind for the next declaration
    vlib.deviation_caught("Scope.tla", "DEV_Scope_DeclareInRoot.cfg", "SiblingsIsolated", cov)
    sc = vlib.tlc_check("Scope.tla", "MC_Scope.cfg", workers=4, want_replay=False)
    cov["states"] += sc["states"]
    cov["transitions"] += sc["transitions"]
    cov["tlc_runs"].append({"cfg": "MC_Scope.cfg", "states": sc["states"]})
    for i, table, stage, first in scopetrace.validate("c02", res, cov):
        rec = recs[i]
        rep.add("scope-trace-rejected:%s:%s:%s" % (table, stage, first.get("op", first.get("ev"))), labels=labels_of(rec),
                detail={"edits": rec["edits"], "first_unmatched_record": first, "walk": stage},
                replay={"text": cases[i]["files"][0]["text"], "cmd": "vph analyze"})
    if tier != "quick":
        cov["apalache_inductive_invariant_ScopeInd"] = apalache_scope()
    cov["units"] = len(recs)
    cov["valid_units"] = sum(1 for x in recs if not x["violated"])
    cov["single_fault_units"] = sum(1 for x in recs if len(x["violated"]) == 1)
    cov["multi_fault_units"] = sum(1 for x in recs if len(x["violated"]) > 1)
    cov["answered_not_implemented_P9999"] = n_unsup
    cov["rules_violated_by_some_unit"] = sorted(rules_hit)
    cov["traces_validated_against_impl"] = len(recs)
    if n_unsup > len(recs) // 10:
        raise vlib.ToolError("more than 10%% of the units are answered with P9999 (%d): the vocabulary needs steering" % n_unsup)
    mid = recs[len(recs) // 2]
    cov["samples"].append({"edits": mid["edits"], "violated": mid["violated"], "text": unitgen.render(mid["unit"])[0][:1500]})
    cov["exhaustive"] = tier != "quick"
    cov["rule"] = "base unit + every sequence of <= 2 edits (12 growth kinds, 17 fault kinds x sites); quick: the behaviours (), (g), (p), (g, p)"
    return rep.finish("model_checking", cov, assumptions=[
        "rule predicates are written from the rules' documented descriptions (Passes / Fails shapes, problem-codes.csv)",
        "type correctness beyond the documented rules is not part of the oracle (the analyzer has no type checker)"])


if __name__ == "__main__":
    vlib.main_wrapper(main)
