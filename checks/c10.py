#!/usr/bin/env python3
"""C10 - re-rendering round-trips: echo output parses back to the same library.

For every derivation of the Grammar.tla corpus that the parser accepts:  L1 = parse(s), t1 = render(L1),
L2 = parse(t1) must succeed and equal L1 (derived PartialEq, and the projected abstract syntax), and
render(L2) = t1 (fixed point).  A sample is also piped through `ironplcc echo | ironplcc echo`.
"""
import os
import sys

sys.path.insert(0, os.path.join(os.path.dirname(os.path.abspath(__file__)), "..", "drivers"))
import gram  # noqa: E402
import gramcheck  # noqa: E402
import vlib  # noqa: E402

QUICK = ["SwExpr", "SwStmt", "SwTypes", "SwFb", "SwProg", "SwFunc", "SwSfc", "SwConfig","Expr2", "ExprS3", "FbS3", "FbE4", "FbStr3", "ProgStr3", "FuncS3", "ProgS3", "ConfigS5", "Stmt2", "Types3", "Fb2", "Prog2", "Func2", "Sfc3", "Config3"]
THOROUGH = ["SwExpr", "SwStmt", "SwTypes", "SwFb", "SwProg", "SwFunc", "SwSfc", "SwConfig","Expr3", "ExprS4", "FbS4", "FbE4", "FbStr4", "ProgStr4", "FuncS4", "ProgS4", "ConfigS5", "Stmt3", "Types4", "Fb3", "Prog3", "Func3", "Sfc4", "Config4", "Lib2"]


def norm_sig(sig):
    """location-independent signature: the innermost two components of the path of the first difference"""
    if sig.startswith("reparsed-differs:"):
        path = sig.split(":", 1)[1]
        return "reparsed-differs:" + "/".join(path.split("/")[-2:])
    return sig


def echo_twice(texts, rep, cov):
    """black-box clause: `ironplcc echo` output fed back to `ironplcc echo` must be accepted and reproduce itself"""
    wd = vlib.workdir("c10_echo")
    n = 0
    for i, t in enumerate(texts):
        p1 = os.path.join(wd, "a%d.st" % i)
        with open(p1, "w") as f:
            f.write(t)
        r1 = vlib.run_cli(["echo", p1])
        if r1["rc"] != 0:
            continue
        p2 = os.path.join(wd, "b%d.st" % i)
        with open(p2, "w") as f:
            f.write(r1["stdout"])
        r2 = vlib.run_cli(["echo", p2])
        n += 1
        if r2["rc"] != 0:
            rep.add("cli:echo-output-rejected-by-echo", labels={"cli"}, detail={"source": t, "echo1": r1["stdout"], "stderr": r2["stderr"][-600:]},
                    replay={"source": t})
        elif r2["stdout"] != r1["stdout"]:
            rep.add("cli:echo-not-fixed-point", labels={"cli"}, detail={"source": t, "echo1": r1["stdout"], "echo2": r2["stdout"]},
                    replay={"source": t})
    cov["cli_echo_pairs"] = n


def literal_round_trips(rep, cov, tier):
    """every literal of Literal.tla that the parser accepts, as the initial value of a variable: parse, render, re-parse -
    the constant must come back as the same value (derived PartialEq of the libraries) and the text must be a fixed point"""
    from concurrent.futures import ThreadPoolExecutor
    import c09
    groups = ["int", "real", "dur", "time", "text"]
    with ThreadPoolExecutor(max_workers=len(groups)) as ex:
        runs = list(ex.map(lambda g: vlib.tlc_check("Literal.tla", "MC_Literal_%s.cfg" % g, workers=3, timeout=3600, name="c10_MC_Literal_" + g), groups))
    recs = []
    for r in runs:
        cov["states"] += r["states"]
        cov["transitions"] += r["transitions"]
        recs += [x for x in r["replay"] if x.get("R") == "lit" and x["expect"] != "reject"]
    texts = [c09.place(r) for r in recs]
    res = vlib.harness("parse", [{"id": i, "text": t, "render": True, "tree": False} for i, t in enumerate(texts)])
    n = 0
    for rec, text, r in zip(recs, texts, res):
        if not r.get("ok"):
            continue                      # not accepted: C09's business
        n += 1
        labels = set(rec["labs"]) | {"literal"}
        lit = "".join(rec["text"])
        if rec["kind"] == "real":
            from fractions import Fraction
            v = rec["value"]
            exact = Fraction(int("".join(str(x) for x in v["mant"]))) * (Fraction(10) ** v["exp10"])
            try:
                whole = float(exact).is_integer()          # the binary64 value the literal is read as
            except OverflowError:
                whole = False
            if whole:
                labels.add("real:whole-number-or-underflow")
        sig = None
        if "panic" in r or "abort" in r:
            sig = "panic:render"
        elif r.get("render_ok") is False:
            sig = "render-error"
        elif r.get("reparse_ok") is False:
            sig = "rendered-text-rejected"
        elif not r.get("reparse_eq"):
            sig = "reparsed-differs"
        elif r.get("rerender_same") is False:
            sig = "render-not-fixed-point"
        if sig:
            rep.add("literal:%s:%s" % (rec["kind"], sig), labels=labels,
                    detail={"literal": lit, "rendered": (r.get("rendered") or "")[:300], "diag": r.get("reparse_diag")},
                    replay={"text": text, "cmd": "vph parse with render=true"})
    cov["literal_round_trips"] = n


def main():
    tier = sys.argv[1] if len(sys.argv) > 1 else vlib.TIER
    vlib.TIER = tier
    vlib.build()
    rep = vlib.Report("C10")
    cov = {"states": 0, "transitions": 0, "traces_validated_against_impl": 0, "samples": [], "tlc_runs": []}
    nds = 0
    stats = {"cases": 0, "ok": 0}
    good = []
    for ds in gramcheck.batches(QUICK if tier == "quick" else THOROUGH, tier, cov):
        fails, st = gramcheck.replay(ds, "c10", vlib.SEED, {})
        stats["cases"] += st["cases"]
        stats["ok"] += st["ok"]
        nds += len(ds)
        failing = set()
        for d, vn, text, sig, det in fails:
            failing.add(id(d))
            rep.add(norm_sig(sig), labels=set(d["labs"]), detail=dict(det, source=text, full_signature=sig, labels=d["labs"]),
                    replay={"text": text, "cmd": "vph parse with render=true"})
        ok_texts = [gram.spell(d["toks"])[0] for d in ds if id(d) not in failing]
        good += ok_texts[:: max(1, len(ok_texts) // 200)]
    literal_round_trips(rep, cov, tier)
    step = max(1, len(good) // (60 if tier == "quick" else 600))
    echo_twice(good[::step], rep, cov)
    cov["derivations"] = nds
    cov["round_trips"] = stats["cases"]
    cov["round_trips_ok"] = stats["ok"]
    cov["traces_validated_against_impl"] = stats["cases"]
    cov["samples"].append({"source": good[len(good) // 2] if good else None})
    cov["exhaustive"] = True
    cov["rule"] = "every derivation of the C01 corpus accepted by the parser: parse, render, re-parse, compare, re-render"
    return rep.finish("model_checking", cov, assumptions=[
        "library equality = derived PartialEq (reported by the harness) and equality of the projected abstract syntax"])


if __name__ == "__main__":
    vlib.main_wrapper(main)
