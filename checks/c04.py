#!/usr/bin/env python3
"""C04 - total and terminating: no input crashes or hangs lex, parse, analyse or render.

Inputs (the structured part comes from the specifications, the rest is seeded random):
 (1) every derivation of the Grammar.tla corpus with random single-token mutations (delete / duplicate / swap /
     replace), and ALL single-token mutations of the small configurations;
 (2) all token sequences of length <= 2 (quick) / 3 (thorough) over one representative per token class;
 (3) nesting shapes up to depth 12 (parentheses, subscripts, calls, IF / CASE / FOR / WHILE / REPEAT), complete
     and unterminated;
 (4) extreme literals (magnitudes 2^31 .. 2^128 and beyond, long digit strings, extreme fields) in every literal
     position: initialisers, expressions, subrange and array bounds, string lengths, TASK INTERVAL / PRIORITY,
     SFC priority, CASE selectors, repeat counts, direct addresses;
 (5) token soup and arbitrary bytes up to 64 KiB, in-process and through `ironplcc check|echo|tokenize`;
 (6) the semantic side: every unit of Unit.tla's corpus (base, growth, each planted fault: undeclared types, invoked
     variables that are no function block, unknown formals ...) and the deep / wide declaration graphs of Recursion.tla
     (chains, ladders with 2^(n/2) paths, fans, dense graphs on 16 and 40 nodes, with and without a cycle) in every
     realisation, also with every declaration written twice (duplicates must be reported, in time).
Oracle: every stage returns (a panic, abort, stack overflow or exceeding the CPU budget is a violation).
"""
import os
import random
import re
import sys
from concurrent.futures import ThreadPoolExecutor

sys.path.insert(0, os.path.join(os.path.dirname(os.path.abspath(__file__)), "..", "drivers"))
import corpus  # noqa: E402
import gram  # noqa: E402
import gramcheck  # noqa: E402
import graphreal  # noqa: E402
import unitgen  # noqa: E402
import vlib  # noqa: E402

BUDGET_CPU_S = 10.0     # per input, debug build; the slowest legitimate input (unterminated depth-12 nesting) needs ~0.15 s

REPL = ["END_IF", "IF", "THEN", "VAR", "END_VAR", ";", ":", ":=", "(", ")", "[", "]", ",", ".", "..", "#", "=>", "x", "INT", "TYPE",
        "END_TYPE", "FUNCTION_BLOCK", "PROGRAM", "AT", "%IX1", "16#FF", "1.5", "'s'", "T#1s", "NOT", "-", "**", "OF", "CASE", "STRUCT",
        "ARRAY", "RETAIN", "TASK", "WITH", "STEP", "TRANSITION", "FROM", "TO", "D#2020-01-01", "TRUE", "R_EDGE", "STRING", "END_STEP"]

TOKEN_REPS = ["x", "ab_1", "7", "1.5", "2.0E3", "16#FF", "2#1", "8#7", "'s'", "\"w\"", "(* c *)", "\n", " ", "(", ")", "[", "]", "{", "}",
              ",", ";", ":", ".", "..", "#", ":=", "=>", "<>", "<=", ">=", "<", ">", "=", "+", "-", "*", "**", "/", "&", "%IX1.2", "%Q*",
              "IF", "THEN", "ELSIF", "ELSE", "END_IF", "CASE", "OF", "END_CASE", "FOR", "TO", "BY", "DO", "END_FOR", "WHILE", "END_WHILE",
              "REPEAT", "UNTIL", "END_REPEAT", "EXIT", "RETURN", "TYPE", "END_TYPE", "STRUCT", "END_STRUCT", "ARRAY", "VAR", "END_VAR",
              "VAR_INPUT", "VAR_OUTPUT", "VAR_IN_OUT", "VAR_EXTERNAL", "VAR_GLOBAL", "VAR_ACCESS", "VAR_CONFIG", "VAR_TEMP", "CONSTANT",
              "RETAIN", "NON_RETAIN", "AT", "FUNCTION", "END_FUNCTION", "FUNCTION_BLOCK", "END_FUNCTION_BLOCK", "PROGRAM", "END_PROGRAM",
              "CONFIGURATION", "END_CONFIGURATION", "RESOURCE", "ON", "END_RESOURCE", "TASK", "WITH", "INITIAL_STEP", "STEP", "END_STEP",
              "TRANSITION", "FROM", "END_TRANSITION", "ACTION", "END_ACTION", "R_EDGE", "F_EDGE", "READ_ONLY", "READ_WRITE", "TRUE", "FALSE",
              "INT", "BOOL", "REAL", "TIME", "DATE", "TOD", "DT", "STRING", "WSTRING", "BYTE", "OR", "XOR", "AND", "MOD", "NOT", "EN", "ENO",
              "T", "D", "PRIORITY", "INTERVAL", "N", "SD", "?", "é"]


def mutate(toks, rng, kind=None, pos=None):
    toks = [list(t) for t in toks]
    n = len(toks)
    kind = kind or rng.choice(["delete", "duplicate", "swap", "replace"])
    i = rng.randrange(n) if pos is None else pos
    if kind == "delete":
        del toks[i]
    elif kind == "duplicate":
        toks.insert(i, list(toks[i]))
    elif kind == "swap":
        if i + 1 < n:
            toks[i], toks[i + 1] = toks[i + 1], toks[i]
    else:
        toks[i][1] = rng.choice(REPL)
    return toks, kind


BIG = ["2147483648", "4294967296", "9223372036854775808", "18446744073709551616", "170141183460469231731687303715884105728",
       "340282366920938463463374607431768211456", "9" * 60, "0" * 40 + "1", "1_" * 30 + "1"]
LITS = (BIG + ["-" + b for b in BIG[:6]] + ["16#" + "F" * n for n in (8, 16, 32, 33, 64)] + ["2#" + "1" * n for n in (64, 128, 129)] +
        ["8#" + "7" * 50, "1.5E400", "1.0E-400", "9" * 400 + ".0", "0." + "9" * 30, "1e5", "1.5e+", "INT#" + BIG[3], "REAL#1.5E999"] +
        ["T#%sd" % BIG[2], "T#1.5d", "T#0.3d", "T#%sh" % BIG[3], "T#%sms" % BIG[4], "T#0.%ss" % ("9" * 20), "T#-%sd" % BIG[1], "T#1d2h3m4s5ms",
         "T#25h_61m", "t#1.9999999999999999h", "TIME#%ss" % BIG[5]] +
        ["D#99999-01-01", "D#2020-13-01", "D#2020-02-30", "D#0000-00-00", "D#%s-1-1" % BIG[3], "DATE#2020-1-%s" % BIG[0]] +
        ["TOD#24:00:00", "TOD#23:59:300.5", "TOD#%s:0:0" % BIG[3], "TOD#1:2:3.%s" % ("9" * 30), "TOD#00:00:4294967296"] +
        ["DT#2020-02-30-25:61:61", "DT#%s-1-1-1:1:1" % BIG[2], "DT#1-1-1-1:1:%s" % BIG[3]] +
        ["%IX" + BIG[1], "%IX1." + BIG[3], "%QW" + "1." * 20 + "1", "%MD4294967296", "%I*", "%IX9.9.9.9.9.9.9.9"] +
        ["'" + "a" * 5000 + "'", "\"" + "é" * 3000 + "\"", "'$'", "'$$'", "''''", "STRING#'x'", "WSTRING#\"y\"", "\"$41\"", "\"$C4$CB\"", "\"A$0A\"", "'$4'", "\"$4\"", "'$41'", "\"$00C4\"", "\"tab$09\"", "'$N$L$P$R$T'", "\"$\""] +
        ["BYTE#" + BIG[3], "WORD#16#" + "F" * 40, "BOOL#2", "BOOL#" + BIG[0]])

CONTEXTS = [
    "PROGRAM p VAR x : INT := {}; END_VAR END_PROGRAM",
    "PROGRAM p VAR x : INT; END_VAR x := {}; END_PROGRAM",
    "PROGRAM p VAR x : INT; END_VAR x := x + {} * 2; END_PROGRAM",
    "TYPE t : INT ({}..10); END_TYPE",
    "TYPE t : INT (0..{}); END_TYPE",
    "TYPE t : INT (0..10) := {}; END_TYPE",
    "TYPE t : ARRAY [{}..5] OF INT; END_TYPE",
    "TYPE t : ARRAY [0..{}] OF INT := [{}(1)]; END_TYPE",
    "TYPE t : STRING[{}]; END_TYPE",
    "PROGRAM p VAR s : STRING[{}] := 'a'; END_VAR END_PROGRAM",
    "CONFIGURATION c RESOURCE r ON pc TASK t (INTERVAL := {}, PRIORITY := 1); PROGRAM i WITH t : p; END_RESOURCE END_CONFIGURATION",
    "CONFIGURATION c RESOURCE r ON pc TASK t (PRIORITY := {}); PROGRAM i WITH t : p; END_RESOURCE END_CONFIGURATION",
    "FUNCTION_BLOCK f INITIAL_STEP s : END_STEP TRANSITION (PRIORITY := {}) FROM s TO s := TRUE; END_TRANSITION END_FUNCTION_BLOCK",
    "FUNCTION_BLOCK f INITIAL_STEP s : a(SD, {}); END_STEP END_FUNCTION_BLOCK",
    "PROGRAM p VAR x : INT; END_VAR CASE x OF {} : x := 1; END_CASE; END_PROGRAM",
    "PROGRAM p VAR x : INT; END_VAR CASE x OF 1..{} : x := 1; END_CASE; END_PROGRAM",
    "PROGRAM p VAR x AT {} : BOOL; END_VAR END_PROGRAM",
    "PROGRAM p VAR x : ARRAY [0..1] OF INT; END_VAR x[{}] := 1; END_PROGRAM",
    "PROGRAM p VAR x : INT; END_VAR FOR x := {} TO {} BY {} DO x := 1; END_FOR; END_PROGRAM",
    "TYPE s : STRUCT a : INT := {}; END_STRUCT; END_TYPE",
    "CONFIGURATION c VAR_GLOBAL g : INT := {}; END_VAR RESOURCE r ON pc PROGRAM i : p (a := {}); END_RESOURCE END_CONFIGURATION",
]


def nesting(depth):
    out = []
    w = "FUNCTION_BLOCK f VAR a : INT; END_VAR %s END_FUNCTION_BLOCK"
    for d in range(1, depth + 1):
        out.append(("paren", w % ("a := " + "(" * d + "a" + ")" * d + ";")))
        out.append(("paren-op", w % ("a := " + "(" * d + "a" + " + 1)" * d + ";")))
        out.append(("paren-unterminated", w % ("a := " + "(" * d + "a;")))
        out.append(("paren-overclosed", w % ("a := a" + ")" * d + ";")))
        out.append(("subscript", w % ("a := " + "a[" * d + "1" + "]" * d + ";")))
        out.append(("subscript-unterminated", w % ("a := " + "a[" * d + "1;")))
        out.append(("call", w % ("a := " + "f(" * d + "1" + ")" * d + ";")))
        out.append(("call-named", w % ("a := " + "f(x := " * d + "1" + ")" * d + ";")))
        out.append(("not-minus", w % ("a := " + "NOT - " * d + "a;")))
        for kw, tail in (("IF a THEN ", " END_IF;"), ("CASE a OF 1: ", " END_CASE;"), ("FOR a := 1 TO 2 DO ", " END_FOR;"),
                         ("WHILE a DO ", " END_WHILE;"), ("REPEAT ", " UNTIL a END_REPEAT;")):
            out.append(("stmt:" + kw.split()[0], w % (kw * d + "a := 1;" + tail * d)))
            out.append(("stmt-unterminated:" + kw.split()[0], w % (kw * d + "a := 1;")))
        out.append(("struct-init", "TYPE t : s := " + "(a := " * d + "1" + ")" * d + "; END_TYPE"))
        out.append(("comment", w % ("(*" * d + " x " + "*)" * d + "a := 1;")))
    return out


def main():
    tier = sys.argv[1] if len(sys.argv) > 1 else vlib.TIER
    vlib.TIER = tier
    vlib.build()
    rep = vlib.Report("C04")
    cov = {"states": 0, "transitions": 0, "traces_validated_against_impl": 0, "samples": [], "tlc_runs": []}
    rng = random.Random(vlib.SEED)
    big = ["Expr2", "Stmt2", "Types3", "Fb2", "Func2", "Prog2", "FbS3", "FuncS3", "ProgS3", "ConfigS5", "Sfc3", "Config3"] if tier == "quick" else ["Expr3", "Stmt2", "Types4", "Fb2", "Func2", "Prog2", "FbS3", "FuncS3", "ProgS3", "ConfigS5", "Sfc3", "Config4"]
    small = ["Expr1", "Stmt1", "Types2", "Fb1", "Sfc2", "Config2"]
    lit_pool = ThreadPoolExecutor(max_workers=1)
    lit_cfgs = ["int", "real", "dur", "time", "text"]
    sem_pool = ThreadPoolExecutor(max_workers=1)
    sem_future = sem_pool.submit(lambda: (vlib.tlc_check("Unit.tla", "MC_Unit_1.cfg" if tier == "quick" else "MC_Unit_2gp.cfg", workers=2, timeout=7200, name="c04_MC_Unit"),
                                          [vlib.tlc_check("Recursion.tla", c, workers=2, name="c04_" + c[:-4]) for c in ("MC_Rec_shapes16.cfg", "MC_Rec_shapes40.cfg", "MC_Rec_rand12.cfg")]))
    lit_future = lit_pool.submit(lambda: [vlib.tlc_check("Literal.tla", "MC_Literal_%s.cfg" % g, workers=2, timeout=3600,
                                                         name="c04_MC_Literal_" + g) for g in lit_cfgs])
    ds_small = gramcheck.derivations(small, cov)
    inputs = []      # (class label, text)
    k = 1 if tier == "quick" else 2
    n_big = 0
    for ds_big in gramcheck.batches(big, tier, cov):      # thorough: streamed, only the texts are kept
        for d in ds_big:
            for _ in range(k):
                t, kind = mutate(d["toks"], rng)
                inputs.append(("mutant:" + kind, gram.spell(t)[0]))
        # the valid sentences themselves (every stage incl. rendering): all of the shape configurations, a third of the rest
        for n_, d in enumerate(ds_big):
            if n_ % 3 == 0 or any(l in ("in:redge", "in:fedge", "progconf:elems", "q:retain", "q:non_retain", "q:constant") for l in d["labs"]):
                inputs.append(("valid", gram.spell(d["toks"])[0]))
        n_big += len(ds_big)
    for d in ds_small:
        inputs.append(("valid", gram.spell(d["toks"])[0]))
        for i in range(len(d["toks"])):
            for kind in ("delete", "duplicate", "swap"):
                inputs.append(("mutant-exhaustive:" + kind, gram.spell(mutate(d["toks"], rng, kind, i)[0])[0]))
    n_mut = len(inputs)
    reps = TOKEN_REPS
    for a in reps:
        inputs.append(("tokens1", a))
        for b in reps:
            inputs.append(("tokens2", a + " " + b))
    if tier != "quick":
        for a in reps:
            for b in reps:
                for c in reps[::4]:
                    inputs.append(("tokens3", a + " " + b + " " + c))
    else:
        for _ in range(20000):
            inputs.append(("tokens3", " ".join(rng.choice(reps) for _ in range(3))))
    # long lexemes with multi-byte characters at every alignment, alone, next to every token class and in place of
    # every token of the small derivations (a syntax error is then reported AT a long, non-ASCII lexeme)
    longs = []
    for ch in ("\u00e9", "\u20ac", "\U0001F600"):
        for shift in ("", "a", "ab", "abc"):
            longs.append("'" + shift + ch * 40 + "'")
            longs.append("\"" + shift + ch * 40 + "\"")
            longs.append("(*" + shift + ch * 40 + "*)")
    longs += ["x" * 100, "x" * 5000, "9" * 200, "16#" + "F" * 200, "%IX" + "1." * 60 + "1"]
    for lt in longs:
        inputs.append(("long-token", lt))
        for a in reps[::4]:
            inputs.append(("long-token", a + " " + lt))
            inputs.append(("long-token", lt + " " + a))
    for d in ds_small[:: max(1, len(ds_small) // 400)]:
        sp = [gram.spell([tk])[0] for tk in d["toks"]]
        for i in range(len(sp)):
            lt = longs[(i * 7 + len(sp)) % len(longs)]
            inputs.append(("long-token-in-sentence", " ".join(sp[:i] + [lt] + sp[i + 1:])))
    for kind, t in nesting(12):
        inputs.append(("nesting:" + kind, t))
    for lit in LITS:
        for c in CONTEXTS:
            inputs.append(("literal", c.replace("{}", lit)))
    # every literal of Literal.tla's structured space (the C09 corpus: boundary magnitudes, fractions of 1 - 20 digits,
    # out-of-range fields ...) in a declaration and in an expression
    for r in lit_future.result():
        cov["states"] += r["states"]
        cov["transitions"] += r["transitions"]
        for x in r["replay"]:
            if x.get("R") != "lit":
                continue
            t = "".join(x["text"])
            if x["kind"] == "addr":
                inputs.append(("spec-literal:addr", "PROGRAM p VAR x AT %s : BOOL; END_VAR END_PROGRAM" % t))
            else:
                inputs.append(("spec-literal:" + x["kind"], CONTEXTS[0].replace("{}", t)))
                if x["kind"] in ("dur", "tod", "dt", "date", "real"):
                    inputs.append(("spec-literal:" + x["kind"], CONTEXTS[2].replace("{}", t)))
                if x["kind"] == "dur":
                    inputs.append(("spec-literal:" + x["kind"], CONTEXTS[10].replace("{}", t)))
    nsoup = 2000 if tier == "quick" else 20000
    for i in range(nsoup):
        inputs.append(("soup", corpus.soup(rng, rng.randrange(1, 120))))
        n = rng.choice([1, 3, 10, 100, 1000]) if i % 50 else rng.randrange(1000, 65536)
        inputs.append(("bytes", corpus.random_bytes_text(rng, n)))
    # (6) units and declaration graphs
    ru, rgs = sem_future.result()
    cov["states"] += ru["states"] + sum(r["states"] for r in rgs)
    cov["transitions"] += ru["transitions"] + sum(r["transitions"] for r in rgs)
    for x in ru["replay"]:
        if x.get("R") == "unit":
            inputs.append(("unit:" + (x["edits"][-1][0] if x["edits"] else "base"), unitgen.render(x["unit"])[0]))
    for r in rgs:
        for g in r["replay"]:
            if g.get("R") != "graph":
                continue
            reals = [("fb", graphreal.realise_fb(g)), ("struct", graphreal.realise_struct(g)), ("struct+alias", graphreal.realise_struct(g, alias=True)),
                     ("mixed", graphreal.realise_mixed(g, 1))]
            reals.append(("fb-arrays", graphreal.realise_fb(g, arrays=True)))
            reals.append(("struct+alias-aliases-twice", graphreal.realise_struct(g, alias=True, aliases_twice=True)))
            if all(len(graphreal.outs(g, i)) <= 1 for i in range(1, g["n"] + 1)):
                reals.append(("enum-alias", graphreal.realise_enum_alias(g)))
                reals.append(("enum-alias-aliases-twice", graphreal.realise_enum_alias(g, aliases_twice=True)))
                reals.append(("enum-alias-qualified", graphreal.realise_enum_alias(g, qualified=True)))
            for kind, text in reals:
                inputs.append(("graph:%s:%s:n=%d" % (g.get("shape", "-"), kind, g["n"]), text))
                inputs.append(("graph-twice:%s:%s:n=%d" % (g.get("shape", "-"), kind, g["n"]), graphreal.twice(text)))
    base = corpus.repo_sources()
    for name, t in base:
        for _ in range(2 if tier == "quick" else 20):
            inputs.append(("source-mutant", corpus.mutate_trivia(t, rng, n=5, invalid=True)))
            cut = rng.randrange(1, max(2, len(t)))
            inputs.append(("source-truncated", t[:cut]))
    cases = [{"id": i, "text": t, "render": True, "analyze": True, "tree": False} for i, (_, t) in enumerate(inputs)]
    res = vlib.harness("parse", cases, per_case_timeout=BUDGET_CPU_S)
    stats = {}
    for (label, text), r in zip(inputs, res):
        st = stats.setdefault(label.split(":")[0], {"n": 0, "parsed": 0})
        st["n"] += 1
        st["parsed"] += 1 if r.get("ok") else 0
        sig = None
        if "panic" in r:
            msg = re.sub(r"\d+", "N", str(r["panic"]))[:80]
            sig = "panic:%s:%s" % (r.get("stage"), msg)
        elif "abort" in r:
            sig = "abort:signal-or-stack-overflow:rc=%s" % r["abort"]
        elif "timeout" in r:
            sig = "cpu-budget-exceeded"
        if sig:
            rep.add(sig, labels={label, label.split(":")[0]}, detail={"result": r, "input_class": label},
                    replay={"text": text, "cmd": "echo '{\"id\":0,\"text\":<text>,\"render\":true,\"analyze\":true}' | build/target/debug/vph parse"})
    # (5) through the real binary
    wd = vlib.workdir("c04_cli")
    sample = [x for x in inputs if x[0] in ("bytes", "soup", "literal") or x[0].startswith("nesting") or x[0].startswith("spec-literal")]
    rng.shuffle(sample)
    sample = sample[:150 if tier == "quick" else 3000]
    files = []
    for i, (label, t) in enumerate(sample):
        p = os.path.join(wd, "f%d.st" % i)
        with open(p, "wb") as f:
            f.write(t.encode("utf-8", "replace") if i % 3 else bytes(rng.getrandbits(8) for _ in range(rng.randrange(1, 3000))))
        files.append((label, p))

    def cli(lp):
        return [vlib.run_cli([cmd, lp[1]], timeout=120) for cmd in ("check", "echo", "tokenize")]

    with ThreadPoolExecutor(max_workers=vlib.NCPU) as ex:
        outs = list(ex.map(cli, files))
    for (label, p), rs in zip(files, outs):
        for cmd, r in zip(("check", "echo", "tokenize"), rs):
            if r.get("timeout") or r["rc"] not in (0, 1):
                m = re.search(r"panicked at ([^\n]*)", r.get("stderr", ""))
                rep.add("cli:%s:%s" % (cmd, "hang" if r.get("timeout") else "rc=%s" % r["rc"]), labels={label, "cli"},
                        detail={"stderr": r.get("stderr", "")[-800:], "panic_at": m.group(1) if m else None},
                        replay={"file_hex": open(p, "rb").read().hex()[:8000], "cmd": "ironplcc %s <file>" % cmd})
    cov["inputs"] = len(inputs)
    cov["by_class"] = stats
    cov["token_mutants"] = n_mut
    cov["cli_runs"] = len(files) * 3
    cov["traces_validated_against_impl"] = len(inputs) + len(files) * 3
    cov["cpu_budget_s"] = BUDGET_CPU_S
    cov["samples"].append({"class": inputs[5][0], "text": inputs[5][1]})
    cov["samples"].append({"class": "literal", "text": CONTEXTS[3].replace("{}", LITS[4])})
    cov["exhaustive"] = False
    cov["rule"] = "see module docstring; mutants and token sequences derive from Grammar.tla's corpus, bytes and soup are seeded random"
    return rep.finish("model_checking", cov, assumptions=[
        "CPU budget of %.0f s per input on the debug build (about 70x the slowest legitimate input)" % BUDGET_CPU_S,
        "stack size 8 MiB (the main-thread stack of the real binary)"])


if __name__ == "__main__":
    vlib.main_wrapper(main)
